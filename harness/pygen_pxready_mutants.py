"""Mutation sanity for the regenerated models of harness/pygen_pxready.py (development tool, not part of ./check).

    /venv/bin/python harness/pygen_pxready_mutants.py [NAME ...]

Same procedure as harness/pygen_mutants.py: every mutant is a copy of avocado_i2n/cartgraph/node.py with ONE small
textual edit (/repo is not touched); the translator is run on the copy, the generated Lean file is written in place of
the committed one and the Props file is built.  Expected: the translator refuses (`refused`) or the equality theorem
no longer compiles (`proof-breaks`).  At the end the generated files are restored from the real source and rebuilt.
"""
import json
import os
import shutil
import sys
import tempfile

HERE = os.path.dirname(os.path.abspath(__file__))
sys.path.insert(0, HERE)
import pygen  # noqa: E402
import pygen_pxready  # noqa: E402
import vlib  # noqa: E402

N = "avocado_i2n/cartgraph/node.py"

SETUP_GUARD = ('        for node in self.setup_nodes:\n'
               '            if not node.is_flat() and worker.id not in node.params["name"]:\n'
               '                continue\n'
               '            if worker.id not in self._dropped_setup_nodes.get_workers(node):\n'
               '                return False\n'
               '        return True\n')
CLEANUP_GUARD = SETUP_GUARD.replace("setup", "cleanup")
PARENT_FILTER = ('        available_nodes = [\n'
                 '            n for n in self.setup_nodes if worker.id in n.params["name"] or n.is_flat()\n'
                 '        ]\n')
PARENT_DROPPED = ('            if worker.id not in self._dropped_setup_nodes.get_workers(n)\n')
PARENT_SORTS = ('        sorted_nodes = sorted(\n'
                '            sorted_nodes, key=lambda n: n._picked_by_cleanup_nodes.get_counters()\n'
                '        )\n'
                '        sorted_nodes = sorted(sorted_nodes, key=lambda n: int(not n.is_flat()))\n')
PARENT_SORTS_SWAPPED = ('        sorted_nodes = sorted(sorted_nodes, key=lambda n: int(not n.is_flat()))\n'
                        '        sorted_nodes = sorted(\n'
                        '            sorted_nodes, key=lambda n: n._picked_by_cleanup_nodes.get_counters()\n'
                        '        )\n')
CHILD_TAIL = ('        test_node = sorted_nodes[0]\n'
              '        test_node._picked_by_setup_nodes.register(self, worker)\n')
PARENT_TAIL = ('        test_node = sorted_nodes[0]\n'
               '        test_node._picked_by_cleanup_nodes.register(self, worker)\n')
CHILD_PRIORITY = ('        sorted_nodes = sorted(\n'
                  '            available_nodes,\n'
                  '            key=cmp_to_key(\n'
                  '                lambda x, y: TestNode.prefix_priority(x.long_prefix, y.long_prefix)\n'
                  '            ),\n'
                  '        )\n'
                  '        sorted_nodes = sorted(\n'
                  '            sorted_nodes, key=lambda n: n._picked_by_setup_nodes.get_counters()\n')
DROP_PARENT = ('        if test_node not in self.setup_nodes:\n'
               '            raise ValueError(\n'
               '                f"Invalid parent to drop: {test_node} not a parent of {self}"\n'
               '            )\n'
               '        self._dropped_setup_nodes.register(test_node, worker)\n')
DROP_CHILD = ('        if test_node not in self.cleanup_nodes:\n'
              '            raise ValueError(\n'
              '                f"Invalid child to drop: {test_node} not a child of {self}"\n'
              '            )\n'
              '        self._dropped_cleanup_nodes.register(test_node, worker)\n')

# name: (target, [(old, new)], expectation, what)
MUTANTS = {
    # ---- is_setup_ready / is_cleanup_ready (C02, isSetupReady_matches_source, isCleanupReady_matches_source)
    "ready-flat-parents-skipped": ("ready", [(SETUP_GUARD, SETUP_GUARD.replace('if not node.is_flat() and worker.id not in', 'if worker.id not in'))],
                                   "proof-breaks", "is_setup_ready: flat parents are skipped like foreign composite ones"),
    "ready-and-to-or": ("ready", [(CLEANUP_GUARD, CLEANUP_GUARD.replace('not node.is_flat() and worker.id', 'not node.is_flat() or worker.id'))],
                        "proof-breaks", "is_cleanup_ready: `and` -> `or` in the continue guard"),
    "ready-found-returns-true": ("ready", [(SETUP_GUARD, SETUP_GUARD.replace('return False', 'return True'))],
                                 "proof-breaks", "is_setup_ready: an undropped parent no longer makes the node unready"),
    "ready-default-false": ("ready", [(CLEANUP_GUARD, CLEANUP_GUARD.replace('        return True\n', '        return False\n'))],
                            "proof-breaks", "is_cleanup_ready: a node without open children is not ready"),
    "ready-in-for-not-in": ("ready", [(SETUP_GUARD, SETUP_GUARD.replace('if worker.id not in self._dropped', 'if worker.id in self._dropped'))],
                            "proof-breaks", "is_setup_ready: dropped test inverted"),
    "ready-wrong-register": ("ready", [(SETUP_GUARD, SETUP_GUARD.replace('self._dropped_setup_nodes.get_workers', 'self._dropped_cleanup_nodes.get_workers'))],
                             "refused", "is_setup_ready reads the cleanup register: not an atom"),
    "ready-break-for-continue": ("ready", [(CLEANUP_GUARD, CLEANUP_GUARD.replace('continue', 'break'))],
                                 "refused", "break instead of continue: loop shape outside the subset"),
    "ready-no-guard": ("ready", [(SETUP_GUARD, SETUP_GUARD.replace('            if not node.is_flat() and worker.id not in node.params["name"]:\n                continue\n', ''))],
                       "proof-breaks", "is_setup_ready: foreign copies are waited for as well"),
    # ---- drop_parent / drop_child (C02, dropParent_matches_source, drop_raises_for_non_neighbour)
    "drop-check-inverted": ("ready", [(DROP_PARENT, DROP_PARENT.replace('if test_node not in self.setup_nodes', 'if test_node in self.setup_nodes'))],
                            "proof-breaks", "drop_parent raises for actual parents"),
    "drop-register-twice": ("ready", [(DROP_CHILD, DROP_CHILD + '        self._dropped_cleanup_nodes.register(test_node, worker)\n')],
                            "proof-breaks", "drop_child counts the visit twice"),
    "drop-wrong-register": ("ready", [(DROP_PARENT, DROP_PARENT.replace('self._dropped_setup_nodes.register', 'self._dropped_cleanup_nodes.register'))],
                            "refused", "drop_parent registers in the cleanup register: not a declared action"),
    "drop-no-check": ("ready", [(DROP_CHILD, '        self._dropped_cleanup_nodes.register(test_node, worker)\n')],
                      "refused", "the declared ValueError is no longer raised"),
    "drop-self-for-node": ("ready", [(DROP_PARENT, DROP_PARENT.replace('register(test_node, worker)', 'register(self, worker)'))],
                           "refused", "the node itself registered instead of the parent"),
    "drop-register-before-check": ("ready", [(DROP_CHILD, '        self._dropped_cleanup_nodes.register(test_node, worker)\n' + DROP_CHILD.replace('        self._dropped_cleanup_nodes.register(test_node, worker)\n', ''))],
                                   "proof-breaks", "registered before the neighbour check (a raising drop leaves a mark)"),
    # ---- pick_parent / pick_child (C02, pickParent_matches_source, pickChild_matches_source)
    "pick-or-to-and": ("ready", [(PARENT_FILTER, PARENT_FILTER.replace('] or n.is_flat()', '] and n.is_flat()'))],
                       "proof-breaks", "pick_parent: only flat own copies are candidates"),
    "pick-dropped-inverted": ("ready", [(PARENT_DROPPED, PARENT_DROPPED.replace('not in', 'in'))],
                              "proof-breaks", "pick_parent picks among the parents already dropped"),
    "pick-sorts-swapped": ("ready", [(PARENT_SORTS, PARENT_SORTS_SWAPPED)],
                           "proof-breaks", "pick_parent: fewest picks outranks flat-first"),
    "pick-priority-sort-dropped": ("ready", [(CHILD_PRIORITY, CHILD_PRIORITY.replace(CHILD_PRIORITY[:CHILD_PRIORITY.index('        sorted_nodes = sorted(\n            sorted_nodes')], '        sorted_nodes = available_nodes\n'))],
                                   "proof-breaks", "pick_child: the prefix priority no longer breaks ties"),
    "pick-last": ("ready", [(CHILD_TAIL, CHILD_TAIL.replace('sorted_nodes[0]', 'sorted_nodes[-1]'))],
                  "refused", "pick_child takes the last candidate"),
    "pick-flat-last": ("ready", [(PARENT_SORTS, PARENT_SORTS.replace('int(not n.is_flat())', 'int(n.is_flat())'))],
                       "refused", "pick_parent: flat nodes last (a pinned sort key changed)"),
    "pick-no-register": ("ready", [(PARENT_TAIL, '        test_node = sorted_nodes[0]\n')],
                         "refused", "pick_parent no longer registers the pick"),
    "pick-wrong-register": ("ready", [(CHILD_TAIL, CHILD_TAIL.replace('_picked_by_setup_nodes.register', '_picked_by_cleanup_nodes.register'))],
                            "refused", "pick_child registers in the other register"),
    "pick-register-on-self": ("ready", [(PARENT_TAIL, PARENT_TAIL.replace('test_node._picked_by_cleanup_nodes.register(self, worker)', 'self._picked_by_cleanup_nodes.register(test_node, worker)'))],
                              "refused", "pick_parent registers on the node itself"),
    "pick-off-by-one": ("ready", [('        if len(available_nodes) == 0:\n            raise RuntimeError(\n                f"Picked a parent',
                                   '        if len(available_nodes) <= 1:\n            raise RuntimeError(\n                f"Picked a parent')],
                        "proof-breaks", "pick_parent refuses a node with one remaining parent"),
    "pick-first-unsorted": ("ready", [(CHILD_TAIL, CHILD_TAIL.replace('sorted_nodes[0]', 'available_nodes[0]'))],
                                  "proof-breaks", "pick_child takes the first candidate in dictionary order"),
    # ---- shared_result_worker_ids (C08, sharedResultWorkerIds_matches_source)
    "ids-status-eq": ("loc", [('            if result["status"] != "PASS":\n                continue\n            worker_ids',
                               '            if result["status"] == "PASS":\n                continue\n            worker_ids')],
                      "proof-breaks", "the workers of the NON-passing results are named"),
    "ids-any-finished": ("loc", [('            if result["status"] != "PASS":\n                continue\n            worker_ids',
                                  '            if result["status"] == "UNKNOWN":\n                continue\n            worker_ids')],
                         "proof-breaks", "every settled result counts (what seeded C08 does)"),
    "ids-operands-swapped": ("loc", [('                if worker_id in result["name"]:\n                    workers.add(worker_id)',
                                      '                if result["name"] in worker_id:\n                    workers.add(worker_id)')],
                             "proof-breaks", "substring test the other way round"),
    "ids-no-break": ("loc", [('                    workers.add(worker_id)\n                    break\n', '                    workers.add(worker_id)\n')],
                     "refused", "every matching worker is named (no break: the loop is a nested accumulation)"),
    "ids-status-lower": ("loc", [('            if result["status"] != "PASS":\n                continue\n            worker_ids',
                                  '            if result["status"] != "pass":\n                continue\n            worker_ids')],
                         "proof-breaks", "status compared with the lower-case literal"),
    "ids-no-guard": ("loc", [('            if result["status"] != "PASS":\n                continue\n            worker_ids', '            worker_ids')],
                     "proof-breaks", "the status is not looked at"),
    "ids-add-name": ("loc", [('                    workers.add(worker_id)\n                    break', '                    workers.add(result["name"])\n                    break')],
                     "proof-breaks", "the result name is collected instead of the worker id"),
    "ids-last-match": ("loc", [('            for worker_id in worker_ids:\n                if worker_id in result["name"]:', '            for worker_id in reversed(worker_ids):\n                if worker_id in result["name"]:')],
                       "refused", "the LAST matching worker wins (`reversed` is outside the subset)"),
}

TARGET = {"ready": ("GenReady.lean", ["I2N.Props.C02"]), "loc": ("GenLoc.lean", ["I2N.Props.C08"])}


def source_of(target, path):
    return pygen_pxready.SOURCES[target](path)


def run_one(name, scratch):
    target, edits, expect, what = MUTANTS[name]
    src = os.path.join(vlib.REPO, N)
    text = open(src).read()
    for old, new in edits:
        if text.count(old) != 1:
            raise RuntimeError(f"{name}: the text to edit occurs {text.count(old)} times in {src}")
        text = text.replace(old, new)
    dst = os.path.join(scratch, name + "_node.py")
    with open(dst, "w") as fh:
        fh.write(text)
    gen, props = TARGET[target]
    res = {"mutant": name, "what": what, "expected": expect}
    try:
        lean = source_of(target, dst)
    except pygen.Unsupported as e:
        res.update(outcome="refused", detail=str(e)[:200])
        return res
    with open(os.path.join(vlib.LEAN, "I2N", "Extracted", gen), "w") as fh:
        fh.write(lean)
    ok, log = vlib.lake_build(props)
    errs = [l for l in log.splitlines() if l.startswith("error:")]
    res.update(outcome="still-proves" if ok else "proof-breaks", detail=(errs[0][:200] if errs else ""))
    return res


def restore():
    for target, (gen, props) in TARGET.items():
        if target in pygen_pxready.SOURCES:
            pygen.write_if_changed(pygen._lean_path(gen), pygen_pxready.SOURCES[target]())
    ok, log = vlib.lake_build(sorted({p for t, (_, ps) in TARGET.items() if t in pygen_pxready.SOURCES for p in ps}))
    if not ok:
        raise RuntimeError("the restored generated files do not build: " + log[-500:])


def main():
    names = sys.argv[1:] or list(MUTANTS)
    scratch = tempfile.mkdtemp(prefix="i2n-verif-pygen-")
    out = []
    try:
        for n in names:
            r = run_one(n, scratch)
            r["as_expected"] = r["outcome"] == r["expected"]
            out.append(r)
            print(json.dumps(r), flush=True)
    finally:
        shutil.rmtree(scratch, ignore_errors=True)
        restore()
    bad = [r["mutant"] for r in out if not r["as_expected"]]
    print(f"{len(out)} mutants, {len(out) - len(bad)} as expected" + (f", NOT as expected: {bad}" if bad else ""))
    return 1 if bad else 0


if __name__ == "__main__":
    sys.exit(main())
