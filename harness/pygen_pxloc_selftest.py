"""Self test of the translator constructs added for harness/pygen_pxloc.py (run by harness/pygen_selftest.py):
  * search loops whose body is a TREE of `if / elif / else` with `return e` leaves (List.findSome?), declared log calls
    in front of a `return` dropped;
  * list comprehensions with two generators (List.flatMap);
  * `|`, `&`, `-` on sets of an opaque element type with a declared `BEq` (`type_defaults`), `len(S) > 0` on such sets.
What must stay refused is refused; one function using all of them translates to the expected `do` block and computes the
same in Python and Lean."""
import ast
import os
import sys

sys.path.insert(0, os.path.dirname(os.path.abspath(__file__)))
import pygen  # noqa: E402

SPEC = pygen.Spec("t", [("x", "String"), ("l", "List String"), ("a", "List Nat"), ("b", "List Nat"),
                        ("groups", "List (List Nat)")],
                  {"x": ("x", "str"), "l": ("l", "slist")}, ret="str", monad="pure",
                  atoms={"A.ids()": ("a", ("set", "Nat")), "B.ids()": ("b", ("set", "Nat")),
                         "GROUPS": ("groups", ("list", ("list", "Nat"))), "GROUPS[g].members": ("g", ("list", "Nat"))},
                  fields={("Nat", ".id"): ("{0}", "Nat")}, type_defaults={"Nat": "0"}, ignored_calls=("log.debug",))

ACCEPTED_SRC = '''def t(x, l):
    both = A.ids() | B.ids()
    picked = [m for g in GROUPS for m in GROUPS[g].members if m.id in both]
    if len(A.ids() & B.ids()) > 0 and len(picked) == 0:
        return "odd"
    for w in l:
        if x in w:
            if w == "stop":
                log.debug(f"stop at {w}")
                return "stopped"
            elif len(picked) > 1:
                return w
        elif w == "other":
            return x
        else:
            log.debug("nothing")
    return "none"
'''

ACCEPTED_LEAN = [
    'def t (x : String) (l : List String) (a : List Nat) (b : List Nat) (groups : List (List Nat)) : String := Id.run do',
    '  let mut both : List Nat := (a ++ b)',
    '  let mut picked : List Nat := (groups.flatMap (fun g => ((g.filter (fun m => (both.contains m))).map (fun m => m))))',
    '  if ((!(a.filter (fun pyElem => b.contains pyElem)).isEmpty) && ((Int.ofNat picked.length) == (0 : Int))) then',
    '    return "odd"',
    '  match (l.findSome? (fun w => (if (isSubstr x w) then (if (w == "stop") then (some "stopped") else '
    '(if (decide ((Int.ofNat picked.length) > (1 : Int))) then (some w) else none)) else (if (w == "other") then (some x) '
    'else none)))) with',
    '  | some pyRet => return pyRet',
    '  | none => pure ()',
    '  return "none"']

REFUSED = {
    "search loop with a statement besides the returns": "def t(x, l):\n    n = 0\n    for w in l:\n        if w == x:\n            n += 1\n            return w\n    return 'none'\n",
    "search loop with a break": "def t(x, l):\n    for w in l:\n        if w == x:\n            return w\n        else:\n            break\n    return 'none'\n",
    "search loop with an else clause": "def t(x, l):\n    for w in l:\n        if w == x:\n            if w == 'a':\n                return w\n    else:\n        return 'no'\n    return 'none'\n",
    "search loop returning nothing": "def t(x, l):\n    for w in l:\n        if w == x:\n            if w == 'a':\n                return\n    return 'none'\n",
    "search loop with two statements": "def t(x, l):\n    for w in l:\n        if w == x:\n            if w == 'a':\n                return w\n        if w == 'b':\n            return x\n    return 'none'\n",
    "search loop returning another type": "def t(x, l):\n    for w in l:\n        if w == x:\n            if w == 'a':\n                return 1\n    return 'none'\n",
    "three generators": "def t(x, l):\n    p = [m for g in GROUPS for m in GROUPS[g].members for w in l]\n    return x\n",
    "both generators bind one name": "def t(x, l):\n    p = [g for g in l for g in l]\n    return x\n",
    "second generator over a string": "def t(x, l):\n    p = [c for w in l for c in w]\n    return x\n",
    "size of an opaque set compared with 1": "def t(x, l):\n    if len(A.ids()) > 1:\n        return x\n    return 'none'\n",
    "union of a set of strings with an opaque set": "def t(x, l):\n    s = {*l} | A.ids()\n    return x\n",
}

NO_BEQ = {"union of opaque sets without a declared BEq": "def t(x, l):\n    s = A.ids() | B.ids()\n    if s:\n        return x\n    return 'none'\n"}


def differential():
    import subprocess
    import tempfile
    import types
    import vlib
    tree = ast.parse(ACCEPTED_SRC)
    lean = pygen.translate(pygen.find_function(tree, "t"), SPEC, {})
    cases, want = [], []

    class M(int):
        @property
        def id(self):
            return int(self)

    def ls(xs):
        return "([" + ", ".join(pygen.lean_str(v) for v in xs) + "] : List String)"

    def ln(xs):
        return "([" + ", ".join(str(v) for v in xs) + "] : List Nat)"
    for x in ("a", "st", "zz"):
        for l in ([], ["a b", "stop"], ["stop", "other"], ["other", "stop"], ["q", "a"]):
            for a, b, groups in (([1], [2], [[1, 2], [3]]), ([1], [1], [[2], [3]]), ([], [], [[1]]), ([3], [], [[3]])):
                ns = {"A": types.SimpleNamespace(ids=lambda a=a: {M(v) for v in a}),
                      "B": types.SimpleNamespace(ids=lambda b=b: {M(v) for v in b}),
                      "GROUPS": {i: types.SimpleNamespace(members=[M(v) for v in g]) for i, g in enumerate(groups)},
                      "log": types.SimpleNamespace(debug=lambda *_: None)}
                exec(ACCEPTED_SRC, ns)
                want.append("=" + str(ns["t"](x, list(l))))
                cases.append(f"t {pygen.lean_str(x)} {ls(l)} {ln(a)} {ln(b)} ([" + ", ".join(ln(g) for g in groups)
                             + "] : List (List Nat))")
    src = ["import I2N.Model.Rules", "open I2N.Rules"] + lean + [
        "#eval IO.println (\"\\n\".intercalate [" + ", ".join(f"\"=\" ++ ({c})" for c in cases) + "])"]
    fd, tmp = tempfile.mkstemp(suffix=".lean", prefix="pygen_selftest_", dir=vlib.LEAN)
    try:
        with os.fdopen(fd, "w") as fh:
            fh.write("\n".join(src) + "\n")
        p = subprocess.run(["lake", "env", "lean", tmp], cwd=vlib.LEAN, stdout=subprocess.PIPE, stderr=subprocess.STDOUT,
                           text=True, timeout=600)
    finally:
        os.unlink(tmp)
    got = [l for l in p.stdout.splitlines() if l.startswith("=")]
    if p.returncode != 0 or got != want:
        diff = [f"{c}: python {w!r}, lean {g!r}" for c, w, g in zip(cases, want, got) if w != g][:5]
        return [f"differential run (pxloc): lean exit {p.returncode}, {len(got)} answers for {len(want)} cases; "
                + "; ".join(diff) + (p.stdout[-600:] if p.returncode else "")]
    return []


def run(with_lean=True):
    bad = differential() if with_lean else []
    for what, src in list(REFUSED.items()) + list(NO_BEQ.items()):
        spec = SPEC
        if what in NO_BEQ:
            spec = pygen.Spec("t", SPEC.binders, {"x": ("x", "str"), "l": ("l", "slist")}, ret="str", monad="pure",
                              atoms={"A.ids()": ("a", ("set", "Nat")), "B.ids()": ("b", ("set", "Nat"))})
        try:
            tree = ast.parse(src)
            pygen.translate(pygen.find_function(tree, "t"), spec, {})
            bad.append("NOT refused (pxloc): " + what)
        except pygen.Unsupported:
            pass
    tree = ast.parse(ACCEPTED_SRC)
    got = pygen.translate(pygen.find_function(tree, "t"), SPEC, {})
    got = got[:got.index("")]
    if got != ACCEPTED_LEAN:
        bad.append("unexpected translation of t:\n" + "\n".join(got))
    return bad


if __name__ == "__main__":
    problems = run("--no-lean" not in sys.argv)
    print(f"pygen selftest (pxloc): {len(REFUSED) + len(NO_BEQ)} refusals, 1 translation, 60 inputs: "
          f"{len(problems)} problem(s)")
    for b in problems:
        print("  " + b)
    sys.exit(1 if problems else 0)
