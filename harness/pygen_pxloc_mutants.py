"""Mutation sanity for the regenerated models of harness/pygen_pxloc.py (development tool, not part of ./check).

    /venv/bin/python harness/pygen_pxloc_mutants.py [NAME ...]

Same procedure as harness/pygen_pxready_mutants.py: every mutant is a copy of avocado_i2n/cartgraph/node.py with ONE small
textual edit (/repo is not touched); the translator is run on the copy, the generated Lean file is written in place of
the committed one and the lemma file with the closed forms is built (the `…_matches_source` theorems of the Props files
are consequences of the closed forms; when the closed forms still compile the Props file is built as well).  Expected:
the translator refuses (`refused`) or a proof no longer compiles (`proof-breaks`).  At the end the generated files are
restored from the real source and rebuilt.
"""
import json
import os
import shutil
import sys
import tempfile

HERE = os.path.dirname(os.path.abspath(__file__))
sys.path.insert(0, HERE)
import pygen  # noqa: E402
import pygen_pxloc  # noqa: E402
import vlib  # noqa: E402

N = "avocado_i2n/cartgraph/node.py"

UNROLL_LOOP = ('        for node in self.cleanup_nodes:\n'
               '            if self.setless_form in node.id:\n'
               '                if worker and worker.id in node.id:\n'
               '                    return True\n'
               '                # whether the node is unrolled for any worker if no worker specified\n'
               '                elif worker is None:\n'
               '                    return True\n'
               '        return False\n')
PARSE_TEST = ('                self.is_unrolled(picked_worker)\n'
              '                and self.is_cleanup_ready(picked_worker)\n'
              '                and len(picked_worker.restrs) == 0\n')
PARSE_END = ('        logging.debug(\n'
             '            f"Should parse {self}{parse_by} which is not cleanup ready from any worker"\n'
             '        )\n'
             '        return True\n')
INVOLVED_IDS = ('            self._picked_by_setup_nodes.get_workers()\n'
                '            | self._picked_by_cleanup_nodes.get_workers()\n')

MUTANTS = {
    # name: (target, [(old, new)], expected outcome, what)
    "unrolled-root-false": ("lazy", [('        if self.is_shared_root():\n            return True\n        elif not self.is_flat():',
                                      '        if self.is_shared_root():\n            return False\n        elif not self.is_flat():')],
                            "proof-breaks", "the shared root counts as not unrolled"),
    "unrolled-no-flat-check": ("lazy", [('        elif not self.is_flat():\n            raise RuntimeError(f"Only flat nodes can be unrolled, {self} is not flat")\n        elif worker and',
                                         '        elif worker and')],
                               "refused", "composite nodes are accepted (the declared exception is gone)"),
    "unrolled-flat-check-first": ("lazy", [('        if self.is_shared_root():\n            return True\n        elif not self.is_flat():\n            raise RuntimeError(f"Only flat nodes can be unrolled, {self} is not flat")\n',
                                            '        if not self.is_flat():\n            raise RuntimeError(f"Only flat nodes can be unrolled, {self} is not flat")\n        elif self.is_shared_root():\n            return True\n')],
                                  "proof-breaks", "the flat test in front of the shared root test (a composite shared root raises)"),
    "unrolled-incompat-inverted": ("lazy", [('worker.net.long_suffix in self.incompatible_workers', 'worker.net.long_suffix not in self.incompatible_workers')],
                                   "proof-breaks", "`in` -> `not in` on the incompatible workers"),
    "unrolled-and-to-or": ("lazy", [('        elif worker and worker.net.long_suffix in', '        elif worker or worker.net.long_suffix in')],
                           "proof-breaks", "`and` -> `or` in the incompatibility test"),
    "unrolled-len-eq": ("lazy", [('len(self.incompatible_workers) > 0', 'len(self.incompatible_workers) == 0')],
                        "proof-breaks", "`> 0` -> `== 0`"),
    "unrolled-len-off-by-one": ("lazy", [('len(self.incompatible_workers) > 0', 'len(self.incompatible_workers) > 1')],
                                "refused", "`> 0` -> `> 1` (the size of a set is only compared with 0)"),
    "unrolled-setless-swapped": ("lazy", [('            if self.setless_form in node.id:\n                if worker and', '            if node.id in self.setless_form:\n                if worker and')],
                                 "proof-breaks", "substring test the other way round"),
    "unrolled-any-child-of-worker": ("lazy", [('                if worker and worker.id in node.id:', '                if worker:')],
                                     "proof-breaks", "any child with the setless form counts for every worker"),
    "unrolled-elif-dropped": ("lazy", [(UNROLL_LOOP, UNROLL_LOOP.replace('                # whether the node is unrolled for any worker if no worker specified\n                elif worker is None:\n                    return True\n', ''))],
                              "proof-breaks", "the `worker is None` alternative removed"),
    "unrolled-elif-to-else": ("lazy", [(UNROLL_LOOP, UNROLL_LOOP.replace('                elif worker is None:\n', '                else:\n'))],
                              "proof-breaks", "`elif worker is None` -> `else`"),
    "unrolled-default-true": ("lazy", [(UNROLL_LOOP, UNROLL_LOOP.replace('        return False\n', '        return True\n'))],
                              "proof-breaks", "final `return False` -> `return True`"),
    "unrolled-setup-nodes": ("lazy", [(UNROLL_LOOP, UNROLL_LOOP.replace('self.cleanup_nodes', 'self.setup_nodes'))],
                             "refused", "the parents are searched (not an atom)"),
    "unrolled-worker-default": ("lazy", [('    def is_unrolled(self, worker: TestWorker = None) -> bool:', '    def is_unrolled(self, worker: TestWorker = True) -> bool:')],
                                "refused", "another default for `worker`"),
    "parse-and-to-or": ("lazy", [(PARSE_TEST, PARSE_TEST.replace('and self.is_cleanup_ready', 'or self.is_cleanup_ready'))],
                        "proof-breaks", "`and` -> `or`"),
    "parse-restricted-only": ("lazy", [(PARSE_TEST, PARSE_TEST.replace('== 0', '> 0'))],
                              "proof-breaks", "`len(restrs) == 0` -> `> 0`"),
    "parse-no-unrolled": ("lazy", [(PARSE_TEST, PARSE_TEST.replace('                self.is_unrolled(picked_worker)\n                and self', '                self'))],
                          "proof-breaks", "the unrolled test dropped"),
    "parse-found-true": ("lazy", [('                    f"Should not parse {self}{parse_by} which is cleanup ready from worker {picked_worker}"\n                )\n                return False\n',
                                   '                    f"Should not parse {self}{parse_by} which is cleanup ready from worker {picked_worker}"\n                )\n                return True\n')],
                         "proof-breaks", "`return False` -> `return True` at the ready worker"),
    "parse-default-false": ("lazy", [(PARSE_END, PARSE_END.replace('return True', 'return False'))],
                            "proof-breaks", "final `return True` -> `return False`"),
    "parse-started-workers": ("lazy", [('        for picked_worker in self.shared_involved_workers:\n            if (\n                self.is_unrolled', '        for picked_worker in self.shared_started_workers:\n            if (\n                self.is_unrolled')],
                              "refused", "another worker set (not an atom)"),
    "flat-one-object": ("lazy", [('        return len(self.objects) == 0\n', '        return len(self.objects) <= 1\n')],
                        "proof-breaks", "off by one"),
    "flat-inverted": ("lazy", [('        return len(self.objects) == 0\n', '        return len(self.objects) != 0\n')],
                      "proof-breaks", "`==` -> `!=`"),
    "root-default-true": ("lazy", [('self.params.get_boolean("shared_root", False)', 'self.params.get_boolean("shared_root", True)')],
                          "proof-breaks", "default of the parameter"),
    "root-other-key": ("lazy", [('self.params.get_boolean("shared_root", False)', 'self.params.get_boolean("object_root", False)')],
                       "refused", "another parameter (not a declared call)"),
    "objroot-other-key": ("lazy", [('        return "object_root" in self.params\n', '        return "shared_root" in self.params\n')],
                          "proof-breaks", "another key"),
    "objroot-inverted": ("lazy", [('        return "object_root" in self.params\n', '        return "object_root" not in self.params\n')],
                         "proof-breaks", "`in` -> `not in`"),
    "stateful-inverted": ("lazy", [('            if object_state:\n                setup_objects += [test_object]', '            if not object_state:\n                setup_objects += [test_object]')],
                          "proof-breaks", "the objects WITHOUT a state"),
    "stateful-default-get": ("lazy", [('    def get_stateful_objects(self, do: str = "set")', '    def get_stateful_objects(self, do: str = "get")')],
                             "refused", "default `do` changed"),
    "stateful-key": ("lazy", [('            object_state = object_params.get(f"{do}_state")\n            if object_state:', '            object_state = object_params.get(f"{do}_states")\n            if object_state:')],
                     "refused", "another parameter key (not an atom)"),
    "stateful-reversed": ("lazy", [('                setup_objects += [test_object]', '                setup_objects = [test_object] + setup_objects')],
                          "refused", "reverse object order (`+` on lists is outside the subset)"),
    "involved-setup-only": ("involved", [(INVOLVED_IDS, '            self._picked_by_setup_nodes.get_workers()\n')],
                            "proof-breaks", "only one register"),
    "involved-and": ("involved", [(INVOLVED_IDS, INVOLVED_IDS.replace('| self', '& self'))],
                     "proof-breaks", "intersection instead of union"),
    "involved-not-in": ("involved", [('            if w.id in worker_ids\n', '            if w.id not in worker_ids\n')],
                        "proof-breaks", "`in` -> `not in`"),
    "involved-no-filter": ("involved", [('            for w in TestSwarm.run_swarms[s].workers\n            if w.id in worker_ids\n', '            for w in TestSwarm.run_swarms[s].workers\n')],
                           "proof-breaks", "all workers"),
    "involved-dropped-register": ("involved", [(INVOLVED_IDS, INVOLVED_IDS.replace('self._picked_by_setup_nodes', 'self._dropped_setup_nodes'))],
                                  "refused", "another register (not an atom)"),
    "results-own-only": ("involved", [('        for bridged_node in self.bridged_nodes:\n            results += bridged_node.results\n        return results',
                                       '        return results')],
                         "proof-breaks", "the bridged copies are not looked at"),
    "results-bridged-first": ("involved", [('            results += bridged_node.results\n', '            results = bridged_node.results + results\n')],
                              "refused", "other order (`+` on lists is outside the subset)"),
    "results-own-twice": ("involved", [('            results += bridged_node.results\n', '            results += self.results\n')],
                          "proof-breaks", "own results once per copy"),
}

TARGET = {"lazy": ("GenLazy.lean", ["I2N.Lemmas.GenLazy"], ["I2N.Props.C02"]),
          "involved": ("GenInvolved.lean", ["I2N.Lemmas.GenLazy", "I2N.Lemmas.GenShared"], ["I2N.Props.C05"])}


def run_one(name, scratch):
    target, edits, expect, what = MUTANTS[name]
    src = os.path.join(vlib.REPO, N)
    text = open(src).read()
    for old, new in edits:
        if text.count(old) != 1:
            raise RuntimeError(f"{name}: the text to edit occurs {text.count(old)} times in {src}")
        text = text.replace(old, new)
    dst = os.path.join(scratch, name + "_node.py")
    with open(dst, "w") as fh:
        fh.write(text)
    gen, lemmas, props = TARGET[target]
    res = {"mutant": name, "what": what, "expected": expect}
    try:
        lean = pygen_pxloc.SOURCES[target](dst)
    except pygen.Unsupported as e:
        res.update(outcome="refused", detail=str(e)[:200])
        return res
    dest = os.path.join(vlib.LEAN, "I2N", "Extracted", gen)
    with open(dest, "w") as fh:
        fh.write(lean)
    try:
        ok, log = vlib.lake_build(lemmas)
        if ok:
            ok, log = vlib.lake_build(props)
    finally:
        with open(dest, "w") as fh:                    # the next mutant starts from the real source again
            fh.write(pygen_pxloc.SOURCES[target]())
    errs = [l for l in log.splitlines() if l.startswith("error:")]
    res.update(outcome="still-proves" if ok else "proof-breaks", detail=(errs[0][:200] if errs else ""))
    return res


def restore():
    for target, (gen, lemmas, props) in TARGET.items():
        pygen.write_if_changed(pygen._lean_path(gen), pygen_pxloc.SOURCES[target]())
    ok, log = vlib.lake_build(sorted({p for t, (_, ls, ps) in TARGET.items() for p in ls}))
    if not ok:
        raise RuntimeError("the restored generated files do not build: " + log[-500:])


def main():
    names = sys.argv[1:] or list(MUTANTS)
    scratch = tempfile.mkdtemp(prefix="i2n-verif-pygen-")
    out = []
    try:
        for n in names:
            r = run_one(n, scratch)
            r["as_expected"] = r["outcome"] == r["expected"]
            out.append(r)
            print(json.dumps(r), flush=True)
    finally:
        shutil.rmtree(scratch, ignore_errors=True)
        restore()
    bad = [r["mutant"] for r in out if not r["as_expected"]]
    print(f"{len(out)} mutants, {len(out) - len(bad)} as expected" + (f", NOT as expected: {bad}" if bad else ""))
    return 1 if bad else 0


if __name__ == "__main__":
    sys.exit(main())
