"""Self test of the constructs added to harness/pygen.py for the ties of harness/pygen_pxindex.py (called from
harness/pygen_selftest.py; also `/venv/bin/python harness/pygen_pxindex_selftest.py`):

  * call templates through a chain of method calls (`reg.get(_1, {}).get(_2, _3)`), `{}` kept in the key
  * `set()` as a first value, `|=` on sets, a nested loop that updates the accumulator of the outer loop
  * a local that is `None` until it gets a list / a set: `x = None`, `x is None` / `is not None`, the value branch of
    `if x is None: … else: …` inside an accumulating loop and of `a if x is not None else b` reads the payload,
    `[]` / `set()` as the other branch, `list(l)`, `set(l)`, `S.intersection(l)`, membership in a set
  * a statement pinned to the empty action among the leading bindings of a loop body

The function below is run in Python and its translation in Lean on the same inputs; the refusals check that the new
constructs still fail closed where Python would raise or where order / size of a set would be observed.
"""
import ast
import os
import sys

sys.path.insert(0, os.path.dirname(os.path.abspath(__file__)))
import pygen  # noqa: E402

SRC4 = '''
def k(l, m):
    acc = None
    for name in l:
        cfg = prep(name)
        cfg["x"] = name
        cur = fetch(cfg)
        if acc is None:
            acc = list(cur)
        else:
            acc = [s for s in acc if s in cur]
    both = None
    for name in m:
        cur2 = fetch2(name)
        if both is not None:
            both = both.intersection(cur2)
        else:
            both = set(cur2)
    if both is None:
        both = set()
    seen = set()
    total = 0
    for name in l:
        seen |= {*reg.get(name, {}).keys()}
    for name in l:
        ws = [name] if flag else reg.get(name, {}).keys()
        for w in ws:
            total += reg.get(name, {}).get(w, 0)
    out = acc if acc is not None else []
    fin = set() if both is None else both
    return (out, total, [s for s in out if s in fin], [s for s in m if s in seen])
'''

SPEC4 = pygen.Spec(
    "k", [("l", "List String"), ("m", "List String"), ("reg", "PyReg"), ("flag", "Bool")],
    {"l": ("l", "slist"), "m": ("m", "slist")}, ret=("tuple", ("slist", "int", "slist", "slist")), monad="pure",
    atoms={"fetch(prep(name))": ("(splitChar '-' name)", "slist"), "fetch2(name)": ("(splitChar '-' name)", "slist"),
           "flag": ("flag", "bool")},
    calls={"reg.get(_1, {}).keys()": ("(keys (getD reg {1} []))", "slist", "pure", ("str",)),
           "reg.get(_1, {}).get(_2, _3)": ("(getD (getD reg {1} []) {2} {3})", "int", "pure", ("str", "str", "int"))},
    stmts={"cfg['x'] = name": ""}, local_types={"acc": ("opt", "slist"), "both": ("opt", "sset")})

REFUSED4 = {
    "optional read as a list outside a narrowed branch": SRC4.replace("acc = [s for s in acc if s in cur]\n    both",
                                                                      "acc = [s for s in acc if s in cur]\n    zz = [s for s in acc]\n    both"),
    "optional read on the None branch": SRC4.replace("            acc = list(cur)\n", "            acc = [s for s in acc]\n"),
    "truthiness of an optional": SRC4.replace("if acc is None:", "if not acc:"),
    "list of a set": SRC4.replace("[s for s in out if s in fin]", "list(fin)"),
    "loop over a set": SRC4.replace("    out = acc if", "    for q in seen:\n        total += 1\n    out = acc if"),
    "len of a set": SRC4.replace("    out = acc if", "    total += len(seen)\n    out = acc if"),
    "union method": SRC4.replace("both.intersection(cur2)", "both.union(cur2)"),
    "changed default in a call template": SRC4.replace("seen |= {*reg.get(name, {}).keys()}", "seen |= {*reg.get(name, {'a': 0}).keys()}"),
    "pinned statement changed": SRC4.replace('cfg["x"] = name', 'cfg["y"] = name'),
    "nested loop with break": SRC4.replace("            total += reg.get(name, {}).get(w, 0)",
                                           "            total += reg.get(name, {}).get(w, 0)\n            break"),
    "None assigned to an undeclared local": SRC4.replace("    seen = set()", "    seen = None"),
}

EXPECTED4 = [
    "def k (l : List String) (m : List String) (reg : PyReg) (flag : Bool) : List String × Int × List String × List String := Id.run do",
    "  let mut acc : Option (List String) := none",
    "  acc := l.foldl (fun acc name => let cur : List String := (splitChar '-' name); (match acc with | none => (some cur) | some pyVal_acc => (some ((pyVal_acc.filter (fun s => (cur.contains s))).map (fun s => s))))) acc",
    "  let mut both : Option (List String) := none",
    "  both := m.foldl (fun both name => let cur2 : List String := (splitChar '-' name); (match both with | none => (some cur2) | some pyVal_both => (some (pyVal_both.filter (fun pyElem => cur2.contains pyElem))))) both",
    "  if both.isNone then",
    "    both := some []",
    "  let mut seen : List String := []",
    "  let mut total : Int := (0 : Int)",
]


def _lean_list(xs):
    return "[" + ", ".join(pygen.lean_str(x) for x in xs) + "]"


def differential4():
    import subprocess
    import tempfile
    import vlib
    regs = [{}, {"a-b": {"a-b": 2, "w": 3}, "b": {"x": 1}}, {"a": {"a": 5}, "a-b": {}, "c-a": {"b": 7, "a": 1}}]
    lists = [[], ["a-b"], ["a-b", "b-a-c"], ["a-b", "c", "a-b"], ["b", "a-b", "c-a"]]
    tree = ast.parse(SRC4)
    lean = pygen.translate(pygen.find_function(tree, "k"), SPEC4, {})
    cases, want = [], []
    for reg in regs:
        for flag in (False, True):
            ns = {"prep": lambda name: {}, "fetch": lambda cfg: cfg["x"].split("-"), "fetch2": lambda name: name.split("-"),
                  "reg": reg, "flag": flag}
            exec(SRC4, ns)
            for l in lists:
                for m in lists[1:4]:
                    out, total, a, b = ns["k"](list(l), list(m))
                    want.append(f"{_lean_list(out)} {total} {_lean_list(a)} {_lean_list(b)}")
                    rl = "[" + ", ".join("(" + pygen.lean_str(n) + ", [" + ", ".join(f"({pygen.lean_str(w)}, ({c} : Int))" for w, c in i.items())
                                         + "])" for n, i in reg.items()) + "]"
                    cases.append(f"k {_lean_list(l)} {_lean_list(m)} {rl} {'true' if flag else 'false'}")
    src = ["import I2N.Model.Rules", "import I2N.Lemmas.PyDict", "open I2N.Rules I2N.PyDict"] + lean + [
        "def shl (l : List String) : String := \"[\" ++ \", \".intercalate (l.map (fun s => \"\\\"\" ++ s ++ \"\\\"\")) ++ \"]\"",
        "def shw (r : (List String) × Int × (List String) × (List String)) : String := s!\"{shl r.1} {r.2.1} {shl r.2.2.1} {shl r.2.2.2}\"",
        "#eval IO.println (\"\\n\".intercalate [" + ", ".join(f"shw ({c})" for c in cases) + "])"]
    fd, tmp = tempfile.mkstemp(suffix=".lean", prefix="pygen_selftest_", dir=vlib.LEAN)
    try:
        with os.fdopen(fd, "w") as fh:
            fh.write("\n".join(src) + "\n")
        p = subprocess.run(["lake", "env", "lean", tmp], cwd=vlib.LEAN, stdout=subprocess.PIPE, stderr=subprocess.STDOUT,
                           text=True, timeout=600)
    finally:
        os.unlink(tmp)
    got = [g for g in p.stdout.splitlines() if g]
    if p.returncode != 0 or got != want:
        diff = [f"{c}: python {w!r}, lean {g!r}" for c, w, g in zip(cases, want, got) if w != g][:5]
        return [f"differential run 4: lean exit {p.returncode}, {len(got)} answers for {len(want)} cases; " + "; ".join(diff)
                + (p.stdout[-600:] if p.returncode else "")], len(cases)
    return [], len(cases)


def run(with_lean=True):
    """-> (problems, number of refusals, number of differential inputs)"""
    bad, n = [], 0
    if with_lean:
        bad, n = differential4()
    for what, src in REFUSED4.items():
        if src == SRC4:
            bad.append("the edit of the refusal case did not apply: " + what)
            continue
        try:
            tree = ast.parse(src)
            pygen.translate(pygen.find_function(tree, "k"), SPEC4, {})
            bad.append("NOT refused: " + what)
        except pygen.Unsupported:
            pass
    tree = ast.parse(SRC4)
    got = pygen.translate(pygen.find_function(tree, "k"), SPEC4, {})
    if got[:len(EXPECTED4)] != EXPECTED4:
        bad.append("unexpected translation of k:\n" + "\n".join(got[:len(EXPECTED4) + 6]))
    return bad, len(REFUSED4), n


if __name__ == "__main__":
    problems, nref, nin = run("--no-lean" not in sys.argv)
    print(f"pygen_pxindex selftest: {nref} refusals, 1 translation, {nin} inputs through Python and the generated Lean checked, "
          f"{len(problems)} problem(s)")
    for b in problems:
        print("  " + b)
    sys.exit(1 if problems else 0)
