"""Self test of the translator constructs added for harness/pygen_pxready.py (run by harness/pygen_selftest.py):
leading `if c: continue` guards of the three loop shapes, lambdas inside the keyword arguments of a DECLARED call
(`sorted(_1, key=lambda …)`), `l[0]` with a declared IndexError.  What must stay refused is refused; one function using
all of them translates to the expected `do` block and computes the same in Python and Lean."""
import ast
import os
import sys

sys.path.insert(0, os.path.dirname(os.path.abspath(__file__)))
import pygen  # noqa: E402

SPEC = pygen.Spec("k", [("x", "String"), ("l", "List String")], {"x": ("x", "str"), "l": ("l", "slist")},
                  ret=("tuple", ("str", "int", "bool")), monad="except",
                  calls={"sorted(_1, key=lambda w: len(w.split()))": ("(sortWords {1})", "slist", "pure", ["slist"])},
                  raises=[("ValueError", "bad ", "Err.negativeTries")], index_error="Err.keyError",
                  prelude=["def insW (a : String) : List String → List String",
                           "  | [] => [a]",
                           "  | b :: r => if (splitWs a).length ≤ (splitWs b).length then a :: b :: r else b :: insW a r",
                           "def sortWords (l : List String) : List String := l.foldr insW []"])

REFUSED = {
    "continue that is not a leading guard": "def k(x, l):\n    n = 0\n    for w in l:\n        n += 1\n        if w == 'a':\n            continue\n        n += 2\n    return (x, n, True)\n",
    "continue guard with an else": "def k(x, l):\n    n = 0\n    for w in l:\n        if w == 'a':\n            continue\n        else:\n            n += 1\n        n += 2\n    return (x, n, True)\n",
    "continue as the whole body": "def k(x, l):\n    n = 0\n    for w in l:\n        if w == 'a':\n            continue\n    return (x, n, True)\n",
    "continue in an unrolled loop": "def k(x, l):\n    n = 0\n    for w in [x, 'b']:\n        if w == 'a':\n            continue\n        n += 1\n    return (x, n, True)\n",
    "lambda outside a declared call": "def k(x, l):\n    f = lambda w: w\n    return (x, 0, True)\n",
    "lambda in an undeclared sort": "def k(x, l):\n    m = sorted(l, key=lambda w: w)\n    return (x, 0, True)\n",
    "declared sort with another key": "def k(x, l):\n    m = sorted(l, key=lambda w: -len(w.split()))\n    return (x, 0, True)\n",
    "lambda as a positional argument of a declared call": "def k(x, l):\n    m = sorted(lambda w: w, key=lambda w: len(w.split()))\n    return (x, 0, True)\n",
    "second element": "def k(x, l):\n    return (l[1], 0, True)\n",
    "last element": "def k(x, l):\n    return (l[-1], 0, True)\n",
    "first element in a comprehension": "def k(x, l):\n    m = [l[0] for w in l]\n    return (x, 0, True)\n",
    "first element behind or": "def k(x, l):\n    b = x == 'a' or l[0] == 'b'\n    return (x, 0, b)\n",
    "first element of a string": "def k(x, l):\n    return (x[0], 0, True)\n",
}
NO_INDEX_ERROR = {"first element without a declared error": "def k(x, l):\n    return (l[0], 0, True)\n"}

ACCEPTED_SRC = '''def k(x, l):
    for w in l:
        if w == "skip":
            continue
        if "no" in w and w != x:
            continue
        if w.startswith("bad"):
            raise_later = w
    n = 0
    for w in l:
        if w == x:
            continue
        n += len(w.split())
    for w in l:
        if w == "skip":
            continue
        if "z" in w:
            return (w, n, False)
    for w in l:
        if w == "skip":
            continue
        has = w == x
        if has:
            break
    else:
        has = False
    m = sorted(l, key=lambda w: len(w.split()))
    if x == "boom":
        raise ValueError(f"bad {x}")
    first = m[0]
    return (first, n, has)
'''
# the first loop of ACCEPTED_SRC is not translatable (an assignment of an undeclared local): it is cut off below; it
# only documents that guards do not make a loop acceptable by themselves
ACCEPTED_SRC = ACCEPTED_SRC.replace('''    for w in l:
        if w == "skip":
            continue
        if "no" in w and w != x:
            continue
        if w.startswith("bad"):
            raise_later = w
''', '')

ACCEPTED_LEAN = [
    'def k (x : String) (l : List String) : Except Err (String × Int × Bool) := do',
    '  let mut n : Int := (0 : Int)',
    '  n := (l.filter (fun w => (!(w == x)))).foldl (fun n w => (n + (Int.ofNat (splitWs w).length))) n',
    '  match ((l.filter (fun w => (!(w == "skip")))).find? (fun w => (isSubstr "z" w))) with',
    '  | some w =>',
    '    return (w, n, false)',
    '  | none => pure ()',
    '  let mut has : Bool := ((l.filter (fun w => (!(w == "skip")))).any (fun w => ((w == x))))',
    '  let mut m : List String := (sortWords l)',
    '  if (x == "boom") then',
    '    throw Err.negativeTries',
    '  let mut first : String := (← (match m with | pyHd :: _ => pure pyHd | [] => throw Err.keyError))',
    '  return (first, n, has)']


def differential():
    import subprocess
    import tempfile
    import vlib
    ns = {}
    exec(ACCEPTED_SRC, ns)
    tree = ast.parse(ACCEPTED_SRC)
    lean = pygen.translate(pygen.find_function(tree, "k"), SPEC, {})
    cases, want = [], []

    def ll(xs):
        return "([" + ", ".join(pygen.lean_str(v) for v in xs) + "] : List String)"
    for x in ("a", "skip", "boom", "b c"):
        for l in ([], ["a"], ["skip", "a z", "z"], ["b c", "a", "skip"], ["x y z", "skip", "a"], ["q q", "b c", "a"]):
            try:
                f, n, h = ns["k"](x, list(l))
                want.append(f"ok {f} {n} {str(h).lower()}")
            except ValueError:
                want.append("ValueError")
            except IndexError:
                want.append("IndexError")
            cases.append(f"k {pygen.lean_str(x)} {ll(l)}")
    src = ["import I2N.Model.Rules", "open I2N.Rules"] + lean + [
        "def shw (r : Except Err (String × Int × Bool)) : String := match r with",
        "  | .ok (f, n, h) => s!\"ok {f} {n} {h}\"",
        "  | .error .negativeTries => \"ValueError\" | .error .keyError => \"IndexError\" | .error _ => \"other\"",
        "#eval IO.println (\"\\n\".intercalate [" + ", ".join(f"shw ({c})" for c in cases) + "])"]
    fd, tmp = tempfile.mkstemp(suffix=".lean", prefix="pygen_selftest_", dir=vlib.LEAN)
    try:
        with os.fdopen(fd, "w") as fh:
            fh.write("\n".join(src) + "\n")
        p = subprocess.run(["lake", "env", "lean", tmp], cwd=vlib.LEAN, stdout=subprocess.PIPE, stderr=subprocess.STDOUT,
                           text=True, timeout=600)
    finally:
        os.unlink(tmp)
    got = [l for l in p.stdout.splitlines() if l]
    if p.returncode != 0 or got != want:
        diff = [f"{c}: python {w!r}, lean {g!r}" for c, w, g in zip(cases, want, got) if w != g][:5]
        return [f"differential run (pxready): lean exit {p.returncode}, {len(got)} answers for {len(want)} cases; "
                + "; ".join(diff) + (p.stdout[-600:] if p.returncode else "")]
    return []


SPEC2 = pygen.Spec("k2", [("x", "String"), ("l", "List String")], {"x": ("x", "str"), "l": ("l", "slist")},
                   ret="sset", monad="pure", local_types={"found": "sset"})

ACCEPTED2_SRC = '''def k2(x, l):
    found = set()
    for w in l:
        if w == "skip":
            continue
        parts = w.split()
        for p in parts:
            if p in x:
                found.add(p)
                break
    return found
'''

ACCEPTED2_LEAN = [
    'def k2 (x : String) (l : List String) : List String := Id.run do',
    '  let mut found : List String := []',
    '  found := (l.filter (fun w => (!(w == "skip")))).foldl (fun found w => let parts : List String := (splitWs w); '
    '(match (parts.find? (fun p => (isSubstr p x))) with | some p => (found ++ [p]) | none => found)) found',
    '  return found']

REFUSED2 = {
    # (three former refusals - `set()` for an undeclared local, a nested loop without break, `set(l)` - are constructs of
    #  the translator now: added for harness/pygen_pxindex.py and exercised by pygen_pxindex_selftest.py)
    "add on a list": "def k2(x, l):\n    found = set()\n    out = x.split()\n    for w in l:\n        out.add(w)\n    return found\n",
    "first-match loop with an else": "def k2(x, l):\n    found = set()\n    for w in l:\n        for p in w.split():\n            if p in x:\n                found.add(p)\n                break\n        else:\n            found.add(w)\n    return found\n",
    "break that is not the last statement": "def k2(x, l):\n    found = set()\n    for w in l:\n        for p in w.split():\n            if p in x:\n                break\n                found.add(p)\n    return found\n",
    "size of the set": "def k2(x, l):\n    found = set()\n    for w in l:\n        found.add(w)\n    if len(found) == 2:\n        return found\n    return found\n",
}


def differential2():
    """k2 (a set built by a first-match loop inside an accumulation) in Python and Lean: the same SETS on 20 inputs"""
    import subprocess
    import tempfile
    import vlib
    ns = {}
    exec(ACCEPTED2_SRC, ns)
    tree = ast.parse(ACCEPTED2_SRC)
    lean = pygen.translate(pygen.find_function(tree, "k2"), SPEC2, {})
    cases, want = [], []

    def ll(xs):
        return "([" + ", ".join(pygen.lean_str(v) for v in xs) + "] : List String)"
    for x in ("a b", "zz", "", "skip a"):
        for l in ([], ["a"], ["skip", "q a b", "b a"], ["zz z", "skip", "x"], ["b", "b a", "a"]):
            want.append(ns["k2"](x, list(l)))
            cases.append(f"k2 {pygen.lean_str(x)} {ll(l)}")
    src = ["import I2N.Model.Rules", "open I2N.Rules"] + lean + [
        "#eval IO.println (\"\\n\".intercalate [" + ", ".join(f"\"=\" ++ \" \".intercalate ({c})" for c in cases) + "])"]
    fd, tmp = tempfile.mkstemp(suffix=".lean", prefix="pygen_selftest_", dir=vlib.LEAN)
    try:
        with os.fdopen(fd, "w") as fh:
            fh.write("\n".join(src) + "\n")
        p = subprocess.run(["lake", "env", "lean", tmp], cwd=vlib.LEAN, stdout=subprocess.PIPE, stderr=subprocess.STDOUT,
                           text=True, timeout=600)
    finally:
        os.unlink(tmp)
    got = [set(l[1:].split()) for l in p.stdout.splitlines() if l.startswith("=")]
    if p.returncode != 0 or got != want:
        diff = [f"{c}: python {w!r}, lean {g!r}" for c, w, g in zip(cases, want, got) if w != g][:5]
        return [f"differential run 2 (pxready): lean exit {p.returncode}, {len(got)} answers for {len(want)} cases; "
                + "; ".join(diff) + (p.stdout[-600:] if p.returncode else "")]
    return []


def run(lean=True):
    """list of problems"""
    bad = differential() + differential2() if lean else []
    for what, src in REFUSED2.items():
        try:
            tree = ast.parse(src)
            pygen.translate(pygen.find_function(tree, "k2"), SPEC2, {})
            bad.append("NOT refused (pxready): " + what)
        except pygen.Unsupported:
            pass
    tree = ast.parse(ACCEPTED2_SRC)
    got2 = pygen.translate(pygen.find_function(tree, "k2"), SPEC2, {})
    got2 = got2[:got2.index("")]
    if got2 != ACCEPTED2_LEAN:
        bad.append("unexpected translation of k2:\n" + "\n".join(got2))
    for what, src in list(REFUSED.items()) + list(NO_INDEX_ERROR.items()):
        spec = SPEC
        if what in NO_INDEX_ERROR:
            spec = pygen.Spec("k", SPEC.binders, {"x": ("x", "str"), "l": ("l", "slist")}, ret=SPEC.ret, monad="except")
        try:
            tree = ast.parse(src)
            pygen.translate(pygen.find_function(tree, "k"), spec, {})
            bad.append("NOT refused (pxready): " + what)
        except pygen.Unsupported:
            pass
    tree = ast.parse(ACCEPTED_SRC)
    got = pygen.translate(pygen.find_function(tree, "k"), SPEC, {})
    got = got[len(SPEC.prelude) + 1:]
    got = got[:got.index("")]
    if got != ACCEPTED_LEAN:
        bad.append("unexpected translation of k:\n" + "\n".join(got))
    return bad


if __name__ == "__main__":
    problems = run("--no-lean" not in sys.argv)
    print(f"pygen selftest (pxready): {len(REFUSED) + len(NO_INDEX_ERROR) + len(REFUSED2)} refusals, 2 translations, 24 + 20 inputs: "
          f"{len(problems)} problem(s)")
    for b in problems:
        print("  " + b)
    sys.exit(1 if problems else 0)
