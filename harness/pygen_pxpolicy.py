"""pygen_pxpolicy — translator tie for avocado_i2n/states/setup.py (property C12, engine E2 `policy`).

`extract_policy(ctx)` (called from harness/props/c12.py:extract on every run) regenerates
lean/I2N/Extracted/GenPolicy.lean from the CURRENT source of `check_states`, `get_states`, `set_states`, `unset_states`,
`push_states`, `pop_states`; lean/I2N/Props/C12.lean proves every generated definition equal to the hand model of
lean/I2N/Model/Policy.lean (`…_matches_source`).  The translator itself is harness/pygen.py (fails closed); this module
adds a FRONT END for the shape these six functions have, and the atom table.

Front end (trusted with the translator; everything that does not look as described raises pygen.Unsupported):
  * the function is  `def f(run_params, env=None): [docstring]; for state_params in _parametric_object_iteration(run_params):
    BODY [; return True]`  without `else`, BODY without loops (other than the pinned `zip` loop of push/pop), `break`, `try`,
    `with`, and without any mention of `run_params`.  What is translated is ONE ITERATION: a function of `state_params`
    (the mutable dictionary, part of the monad's state) in which `continue` is `return` (for `check_states`, which answers
    a Boolean: `continue` and the end of BODY are `return True` = go on with the next object, `return False` stays, and
    the statement after the loop must be `return True`).  The loop itself is the hand model's `loopM` / `checkLoop` over
    `iterObjects` (not translated here).
  * `state_params[K] = V` / `root_params[K] = V` (K a string constant) is rewritten to the call `X.__setitem__(K, V)`, for
    which the atom table has the action `setP K V` / `setRP K V`;
  * `raise exceptions.Cls(MSG)` is rewritten to `raise Cls(<constant prefix of MSG>)` (MSG a constant, an f-string or
    `"…" % args`); the class alone decides the Lean error (TestAbortError -> abort, TestError -> invalidPolicy);
  * the arguments of `logging.*` calls are dropped after checking that they only build a message.

Atom table (meaning in lean/I2N/Lemmas/PolicyM.lean): schematic — for EVERY string constant K, D occurring in the source
  `state_params.get(K, D)` = `sp.getD K D`   (so a changed default changes the generated Lean, it is not pinned),
  `state_params.get(K)` as a truth value = `truthyP K`, `state_params.objects(K)`, `state_params.get_boolean(K, False)`
  (may raise ValueError), `state_params[K][i]` (one letter, IndexError), `state_params[K]` for the keys the iteration /
  a preceding truthiness test guarantee (object_name, object_type, *_state); backend calls and look-ups are actions.
Pinned statements (stand for one action each, not part of the policy logic): the three look-ups
  `state_backend = BACKENDS[…]`, `vm = env.get_vm(…) …`, `state_object = …`, the backend calls, `root_params = ….copy()`,
  `vm.destroy(…)`, the `from .pool import` line, the log-only `state = state_params[…]`, the `zip` loop of push/pop.
"""
import ast
import copy
import os

import pygen
from pygen import Unsupported, Spec

SETUP_REL = "avocado_i2n/states/setup.py"
LOGS = {"logging.debug", "logging.info", "logging.warning"}
DICTS = ("state_params", "root_params")
TOTAL_KEYS = {"object_name", "object_type", "check_state", "get_state", "set_state", "unset_state", "push_state",
              "pop_state"}


def _ls(s):
    return pygen.lean_str(s)


# ---------------------------------------------------------------------------------------------------------------------
# front end

def _msg_ok(node):
    """an expression that only builds a log / exception message"""
    for n in ast.walk(node):
        if isinstance(n, (ast.Constant, ast.JoinedStr, ast.FormattedValue, ast.Name, ast.Attribute, ast.Load, ast.Tuple,
                          ast.Mod)):
            continue
        if isinstance(n, ast.BinOp) and isinstance(n.op, ast.Mod):
            continue
        if isinstance(n, ast.Subscript) and isinstance(n.slice, ast.Constant) and isinstance(n.slice.value, str):
            continue
        if isinstance(n, ast.Call) and not n.keywords and isinstance(n.func, ast.Attribute) \
                and n.func.attr in ("join", "objects"):
            continue
        return False
    return True


class _Rewrite(ast.NodeTransformer):
    def __init__(self, fname, boolean):
        self.fname, self.boolean = fname, boolean

    def visit_Continue(self, n):
        return ast.copy_location(ast.Return(value=ast.Constant(value=True) if self.boolean else None), n)

    def visit_Assign(self, n):
        if len(n.targets) == 1 and isinstance(n.targets[0], ast.Subscript):
            t = n.targets[0]
            if isinstance(t.value, ast.Name) and t.value.id in DICTS and isinstance(t.slice, ast.Constant) \
                    and isinstance(t.slice.value, str):
                call = ast.Call(func=ast.Attribute(value=ast.Name(id=t.value.id, ctx=ast.Load()), attr="__setitem__",
                                                   ctx=ast.Load()),
                                args=[ast.Constant(value=t.slice.value), n.value], keywords=[])
                return ast.copy_location(ast.Expr(value=call), n)
        return n

    def visit_Raise(self, n):
        e = n.exc
        where = f"{self.fname}:{n.lineno}"
        if n.cause is not None or not (isinstance(e, ast.Call) and len(e.args) == 1 and not e.keywords):
            raise Unsupported(f"{where}: `{ast.unparse(n)[:80]}`")
        f = e.func
        if isinstance(f, ast.Attribute) and isinstance(f.value, ast.Name) and f.value.id == "exceptions":
            cls = f.attr
        elif isinstance(f, ast.Name):
            cls = f.id
        else:
            raise Unsupported(f"{where}: exception class `{ast.unparse(f)}`")
        msg = e.args[0]
        if not _msg_ok(msg):
            raise Unsupported(f"{where}: the message of `{ast.unparse(n)[:80]}` is not a plain message")
        if isinstance(msg, ast.BinOp) and isinstance(msg.op, ast.Mod) and isinstance(msg.left, ast.Constant) \
                and isinstance(msg.left.value, str):
            msg = ast.Constant(value=msg.left.value)
        elif isinstance(msg, ast.JoinedStr):
            msg = ast.Constant(value="".join(v.value if isinstance(v, ast.Constant) else "{}" for v in msg.values))
        elif not (isinstance(msg, ast.Constant) and isinstance(msg.value, str)):
            raise Unsupported(f"{where}: the message of `{ast.unparse(n)[:80]}`")
        new = ast.Raise(exc=ast.Call(func=ast.Name(id=cls, ctx=ast.Load()), args=[msg], keywords=[]), cause=None)
        return ast.copy_location(new, n)

    def visit_Expr(self, n):
        if isinstance(n.value, ast.Call) and pygen._dotted(n.value.func) in LOGS:
            for a in list(n.value.args) + [k.value for k in n.value.keywords]:
                if not _msg_ok(a):
                    raise Unsupported(f"{self.fname}:{n.lineno}: argument `{ast.unparse(a)[:60]}` of a log call is not a "
                                      "plain message")
            new = ast.Expr(value=ast.Call(func=n.value.func, args=[], keywords=[]))
            return ast.copy_location(new, n)
        return n


def iteration_function(tree, fname, boolean, pinned_loops=()):
    """the synthetic FunctionDef `fname(state_params, env)` = one iteration of the loop of `fname`"""
    fn = pygen.find_function(tree, fname)
    a = fn.args
    if [x.arg for x in a.args] != ["run_params", "env"] or a.vararg or a.kwarg or a.kwonlyargs or a.posonlyargs \
            or len(a.defaults) != 1 or not (isinstance(a.defaults[0], ast.Constant) and a.defaults[0].value is None):
        raise Unsupported(f"{fname}: signature is not (run_params, env=None)")
    body = list(fn.body)
    if body and isinstance(body[0], ast.Expr) and isinstance(body[0].value, ast.Constant) \
            and isinstance(body[0].value.value, str):
        body = body[1:]
    want = 2 if boolean else 1
    if len(body) != want or not isinstance(body[0], ast.For):
        raise Unsupported(f"{fname}: the body is not a single loop" + (" followed by `return True`" if boolean else ""))
    if boolean and not (isinstance(body[1], ast.Return) and isinstance(body[1].value, ast.Constant)
                        and body[1].value.value is True):
        raise Unsupported(f"{fname}: the statement after the loop is not `return True`")
    loop = body[0]
    if loop.orelse or not (isinstance(loop.target, ast.Name) and loop.target.id == "state_params") \
            or ast.unparse(loop.iter) != "_parametric_object_iteration(run_params)":
        raise Unsupported(f"{fname}: the loop is not `for state_params in _parametric_object_iteration(run_params)`")
    pinned = {pygen.norm_block(src) for src in pinned_loops}
    for s in loop.body:
        for n in ast.walk(s):
            if isinstance(n, (ast.For, ast.While)) and pygen.dump_stmts([n]) in pinned:
                if any(isinstance(x, (ast.Continue, ast.Break, ast.Return, ast.Raise)) for x in ast.walk(n)):
                    raise Unsupported(f"{fname}:{n.lineno}: the pinned loop leaves by continue / break / return / raise")
                continue
            if isinstance(n, (ast.For, ast.While, ast.AsyncFor, ast.Break, ast.Try, ast.With, ast.AsyncWith, ast.Yield,
                              ast.YieldFrom, ast.Await, ast.Lambda, ast.FunctionDef, ast.ClassDef, ast.Global,
                              ast.Nonlocal, ast.Delete, ast.NamedExpr)):
                raise Unsupported(f"{fname}:{getattr(n, 'lineno', '?')}: {type(n).__name__} inside the loop body")
            if isinstance(n, ast.Name) and n.id == "run_params":
                raise Unsupported(f"{fname}:{n.lineno}: the loop body mentions run_params")
            if isinstance(n, ast.Name) and n.id == "state_params" and not isinstance(n.ctx, ast.Load):
                raise Unsupported(f"{fname}:{n.lineno}: the loop body rebinds state_params")
            if not boolean and isinstance(n, ast.Return):
                raise Unsupported(f"{fname}:{n.lineno}: `return` inside the loop body")
            if boolean and isinstance(n, ast.Return) and not (isinstance(n.value, ast.Constant) and n.value.value is False):
                raise Unsupported(f"{fname}:{n.lineno}: a `return` other than `return False` inside the loop body")
    rw = _Rewrite(fname, boolean)
    new_body = []
    for s in loop.body:
        if isinstance(s, ast.For) and pygen.dump_stmts([s]) in pinned:
            new_body.append(copy.deepcopy(s))
        else:
            new_body.append(rw.visit(copy.deepcopy(s)))
    if boolean:
        new_body.append(ast.Return(value=ast.Constant(value=True)))
    args = ast.arguments(posonlyargs=[], args=[ast.arg(arg="state_params"), ast.arg(arg="env")], kwonlyargs=[],
                         kw_defaults=[], defaults=[])
    new = ast.FunctionDef(name=fname, args=args, body=new_body, decorator_list=[], returns=None, type_comment=None)
    try:
        new.type_params = []
    except Exception:
        pass
    return ast.fix_missing_locations(ast.copy_location(new, fn))


# ---------------------------------------------------------------------------------------------------------------------
# the schematic atom table

def _is_sp(n):
    return isinstance(n, ast.Name) and n.id == "state_params"


def _cstr(n):
    return n.value if isinstance(n, ast.Constant) and isinstance(n.value, str) else None


def schema(fn):
    """atoms / calls for every read and store of the dictionaries that occurs in `fn` (see the module docstring)"""
    atoms, calls = {}, {}
    for n in ast.walk(fn):
        if isinstance(n, ast.Call) and isinstance(n.func, ast.Attribute) and isinstance(n.func.value, ast.Name) \
                and not n.keywords:
            d, m = n.func.value.id, n.func.attr
            ks = [_cstr(x) for x in n.args]
            if d == "state_params" and m == "get" and len(ks) == 2 and None not in ks:
                atoms[ast.unparse(n)] = (f"rd (fun sp => sp.getD {_ls(ks[0])} {_ls(ks[1])})", "str", "reads")
            elif d == "state_params" and m == "get" and len(ks) == 1 and ks[0] is not None:
                atoms[ast.unparse(n)] = (f"rd (truthyP {_ls(ks[0])})", "bool", "reads")
            elif d == "state_params" and m == "objects" and len(ks) == 1 and ks[0] is not None:
                atoms[ast.unparse(n)] = (f"rd (fun sp => sp.objects {_ls(ks[0])})", "slist", "reads")
            elif d == "state_params" and m == "get_boolean" and len(n.args) == 2 and ks[0] is not None \
                    and isinstance(n.args[1], ast.Constant) and n.args[1].value is False:
                atoms[ast.unparse(n)] = (f"getBoolM {_ls(ks[0])}", "bool", "raises")
            elif d in DICTS and m == "__setitem__" and len(n.args) == 2 and ks[0] is not None:
                act = "setP" if d == "state_params" else "setRP"
                if ks[1] is not None:
                    calls[ast.unparse(n)] = (f"{act} {_ls(ks[0])} {_ls(ks[1])}", "unit", "action")
                else:
                    calls[f"{d}.__setitem__({ks[0]!r}, _1)"] = (f"{act} {_ls(ks[0])} {{1}}", "unit", "action", ["str"])
        if isinstance(n, ast.Subscript) and isinstance(n.ctx, ast.Load):
            if _is_sp(n.value) and _cstr(n.slice) in TOTAL_KEYS:
                atoms[ast.unparse(n)] = (f"rd (fun sp => sp.getD {_ls(_cstr(n.slice))} \"\")", "str", "reads")
            v = n.value
            if isinstance(v, ast.Subscript) and _is_sp(v.value) and _cstr(v.slice) is not None \
                    and isinstance(n.slice, ast.Constant) and n.slice.value in (0, 1) \
                    and not isinstance(n.slice.value, bool):
                atoms[ast.unparse(n)] = (f"letterM {_ls(_cstr(v.slice))} {n.slice.value}", "str", "raises")
    return atoms, calls


RAISES = [("TestAbortError", "", "Err.abort"), ("TestError", "", "Err.invalidPolicy")]
PARAMS = {"state_params": None, "env": None}
PRIMS = {"split_char": "pySplitChar"}

LOOKUPS = {
    'state_backend = BACKENDS[state_params["states"]]': "let state_backend ← backendM B",
    'vm = env.get_vm(state_params["vms"]) if env is not None else None': "vmM",
    'state_object = env if params_obj_type == "nets" else vm': "pure ()",
}
BACKEND_ATOMS = {
    "state_backend.check_root(state_params, state_object)": ("bCheckRootM state_backend", "bool", "raises"),
    "state_backend.show(state_params, state_object)": ("bShowM state_backend", "slist", "raises"),
    "issubclass(state_backend, SourcedStateBackend)": ("state_backend.2", "bool"),
}


def _bstmt(op, lean, d="state_params"):
    return {f"state_backend.{op}({d}, state_object)": f"{lean} state_backend"}


def _spec(lean_name, fn, ret, stmts, atoms=None, calls=None, raises=RAISES, doc=""):
    a, c = schema(fn)
    src = ast.unparse(fn)
    for k, v in BACKEND_ATOMS.items():
        if pygen.norm_expr(k) in src:
            a[k] = v
    a.update(atoms or {})
    c.update(calls or {})
    return Spec(lean_name, binders=[("B", "Backends")], params=PARAMS, ret=ret, monad="M", atoms=a, calls=c,
                raises=raises, ignored_calls=LOGS, stmts=stmts, prims=PRIMS, doc=doc)


def _do_spec(which, fn):
    """get_states / set_states / unset_states: one iteration"""
    stmts = dict(LOOKUPS)
    stmts[f'state = state_params["{which}_state"]'] = "pure ()"
    if which == "get":
        stmts.update(_bstmt("get_root", "bGetRootM"))
        stmts.update(_bstmt("get", "bGetM"))
    if which in ("set", "unset"):
        stmts.update(_bstmt("unset_root", "bUnsetRootM"))
        stmts.update(_bstmt("unset", "bUnsetM"))
    if which == "set":
        stmts.update(_bstmt("set_root", "bSetRootM"))
        stmts.update(_bstmt("set", "bSetM"))
        stmts["from .pool import SourcedStateBackend"] = "pure ()"
    calls = {f"_state_check_chain('{which}', _1, _2, _3, _4)":
             (f"chainM B Do.{which} {{2}} {{3}}", "bool", "raises", ["_", "str", "str", "_"])}
    return _spec(f"gen{which.capitalize()}One", fn, "unit", stmts, calls=calls,
                 doc=f"one iteration of the loop of `{which}_states` of avocado_i2n/states/setup.py (`continue` = `return`)")


def _check_spec(fn):
    stmts = dict(LOOKUPS)
    stmts["root_params = state_params.copy()"] = "copyRootM"
    stmts.update(_bstmt("set_root", "bSetRootRM", "root_params"))
    stmts.update(_bstmt("unset_root", "bUnsetRootRM", "root_params"))
    stmts.update(_bstmt("get_root", "bGetRootRM", "root_params"))
    stmts['vm.destroy(gracefully=root_params.get_dict("check_opts").get("soft_boot", "yes") == "yes")'] = "destroyRM"
    return _spec("genCheckOne", fn, "bool", stmts,
                 raises=[("TestError", "", "Err.invalidPolicy")],
                 doc="one iteration of the loop of `check_states` (`true` = go on with the next object: `continue` or the "
                     "end of the body; `false` = `return False`)")


ZIP_LOOP = ("for composite_type, composite_name in zip(composite_types, composite_names):\n"
            "    state_params[composite_type] = composite_name\n")


def _pushpop_spec(which, fn):
    stmts = {ZIP_LOOP: "zipSetM composite_types composite_names",
             'state_params.__setitem__("states_chain", composite_types[-1])':
                 'setP "states_chain" (composite_types.getLast?.getD "")'}
    calls = {f"{d}_states(_1, _2)": (f"doStatesM B Do.{d}", "unit", "action", ["_", "_"])
             for d in (("set",) if which == "push" else ("get", "unset"))}
    return _spec(f"gen{which.capitalize()}One", fn, "unit", stmts, calls=calls, raises=[],
                 doc=f"one iteration of the loop of `{which}_states` (`continue` = `return`)")


# ---------------------------------------------------------------------------------------------------------------------
# `_state_check_chain(do, env, params_obj_type, params_obj_name, state_params)`: one definition per value of `do`

CHAIN_ARGS = ["do", "env", "params_obj_type", "params_obj_name", "state_params"]


class _Specialise(ast.NodeTransformer):
    """partial evaluation for a constant value of the parameter `do`: every read of the name becomes the string constant,
    an f-string all of whose parts are then constants (no conversion, no format spec) becomes the constant it builds.
    Nothing else is folded: `if "get" == "set":` stays a test in the generated Lean."""

    def __init__(self, value):
        self.value = value

    def visit_Name(self, n):
        if n.id == "do":
            if not isinstance(n.ctx, ast.Load):
                raise Unsupported(f"_state_check_chain:{n.lineno}: the parameter `do` is assigned")
            return ast.copy_location(ast.Constant(value=self.value), n)
        return n

    def visit_JoinedStr(self, n):
        self.generic_visit(n)
        parts = []
        for v in n.values:
            if isinstance(v, ast.Constant) and isinstance(v.value, str):
                parts.append(v.value)
            elif isinstance(v, ast.FormattedValue) and v.conversion == -1 and v.format_spec is None \
                    and isinstance(v.value, ast.Constant) and isinstance(v.value.value, str):
                parts.append(v.value.value)
            else:
                return n
        return ast.copy_location(ast.Constant(value="".join(parts)), n)


def chain_function(tree, do):
    """the synthetic FunctionDef `_state_check_chain(env, params_obj_type, params_obj_name, state_params)` for do = `do`"""
    fname = "_state_check_chain"
    fn = pygen.find_function(tree, fname)
    a = fn.args
    if [x.arg for x in a.args] != CHAIN_ARGS or a.vararg or a.kwarg or a.kwonlyargs or a.posonlyargs or a.defaults:
        raise Unsupported(f"{fname}: signature is not ({', '.join(CHAIN_ARGS)})")
    body = list(fn.body)
    if body and isinstance(body[0], ast.Expr) and isinstance(body[0].value, ast.Constant) \
            and isinstance(body[0].value.value, str):
        body = body[1:]
    pinned = {pygen.norm_block(ZIP_LOOP)}
    for s in body:
        for n in ast.walk(s):
            if isinstance(n, (ast.For, ast.While)) and pygen.dump_stmts([n]) in pinned:
                continue
            if isinstance(n, (ast.For, ast.While, ast.AsyncFor, ast.Break, ast.Continue, ast.Try, ast.With, ast.AsyncWith,
                              ast.Yield, ast.YieldFrom, ast.Await, ast.Lambda, ast.FunctionDef, ast.ClassDef, ast.Global,
                              ast.Nonlocal, ast.Delete, ast.NamedExpr, ast.Raise)):
                raise Unsupported(f"{fname}:{getattr(n, 'lineno', '?')}: {type(n).__name__} in the body")
            if isinstance(n, ast.Name) and n.id == "state_params" and not isinstance(n.ctx, ast.Load):
                raise Unsupported(f"{fname}:{n.lineno}: the body rebinds state_params")
    rw = _Rewrite(fname, False)
    sp = _Specialise(do)
    new_body = []
    for s in body:
        if isinstance(s, ast.For) and pygen.dump_stmts([s]) in pinned:
            new_body.append(copy.deepcopy(s))
        else:
            new_body.append(rw.visit(sp.visit(copy.deepcopy(s))))
    args = ast.arguments(posonlyargs=[], args=[ast.arg(arg=x) for x in CHAIN_ARGS[1:]], kwonlyargs=[], kw_defaults=[],
                         defaults=[])
    new = ast.FunctionDef(name=fname, args=args, body=new_body, decorator_list=[], returns=None, type_comment=None)
    try:
        new.type_params = []
    except Exception:
        pass
    return ast.fix_missing_locations(ast.copy_location(new, fn))


def _chain_spec(do, fn):
    stmts = {ZIP_LOOP: "zipSetM composite_types composite_names",
             'state_params.__setitem__("states_chain", composite_types[-1])':
                 'setP "states_chain" (composite_types.getLast?.getD "")'}
    # `state_params["<do>_location"]` is read only behind the truthiness test of the same key
    atoms = {f'state_params["{do}_location"]': (f'rd (fun sp => sp.getD {_ls(do + "_location")} "")', "str", "reads")}
    calls = {"check_states(_1, _2)": ("checkStatesM B", "bool", "raises", ["_", "_"])}
    a, c = schema(fn)
    a.update(atoms)
    c.update(calls)
    return Spec(f"genChain{do.capitalize()}",
                binders=[("B", "Backends"), ("params_obj_type", "String"), ("params_obj_name", "String")],
                params={"env": None, "params_obj_type": ("params_obj_type", "str"),
                        "params_obj_name": ("params_obj_name", "str"), "state_params": None},
                ret="bool", monad="M", atoms=a, calls=c, raises=[], ignored_calls=LOGS, stmts=stmts, prims=PRIMS,
                doc=f"`_state_check_chain(\"{do}\", env, params_obj_type, params_obj_name, state_params)` of "
                    "avocado_i2n/states/setup.py (the parameter `do` specialised by the front end)")


FUNCTIONS = ["get", "set", "unset", "check", "push", "pop", "chain_get", "chain_set", "chain_unset"]


def _translate(tree, which):
    consts = pygen.module_constants(tree)
    if which in ("get", "set", "unset"):
        fn = iteration_function(tree, f"{which}_states", False)
        return pygen.translate(fn, _do_spec(which, fn), consts)
    if which == "check":
        fn = iteration_function(tree, "check_states", True)
        return pygen.translate(fn, _check_spec(fn), consts)
    if which.startswith("chain_"):
        do = which[len("chain_"):]
        fn = chain_function(tree, do)
        return pygen.translate(fn, _chain_spec(do, fn), consts)
    fn =iteration_function(tree, f"{which}_states", False, pinned_loops=[ZIP_LOOP])
    return pygen.translate(fn, _pushpop_spec(which, fn), consts)


def policy_source(path=None, only=None):
    path = path or pygen._src("PYGEN_SETUP_SRC", SETUP_REL)
    tree = ast.parse(open(path).read(), filename=path)
    defs = [_translate(tree, w) for w in (only or FUNCTIONS)]
    return pygen.render_file("harness/pygen_pxpolicy.py:extract_policy (called by harness/props/c12.py:extract) from "
                             "avocado_i2n/states/setup.py", ["I2N.Lemmas.PolicyM"], "I2N.Extracted.GenPolicy",
                             ["I2N.Policy", "I2N.PolicyM"], defs)


def extract_policy(ctx=None):
    return pygen.write_if_changed(pygen._lean_path("GenPolicy.lean"), policy_source())


if __name__ == "__main__":
    import sys
    print(policy_source(only=sys.argv[1:] or None))
