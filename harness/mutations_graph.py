"""Mutation sanity of the graph family (C06, C07, C09): realistic small edits of the anchored /repo code, applied to
a scratch COPY of one module (harness/graphlib.py:patched), against which the three harnesses are run.

    /venv/bin/python harness/mutations_graph.py [name …]

Prints, per mutation, which property check reports it and how (violation keys / disagreements).  /repo is never
edited.  Violations keyed by the two recorded findings (graphlib.KNOWN_KEYS) are not counted: what is reported is
due to the mutation.  Every case runs through `run_attributed` exactly as in a real check."""
import os
import sys
import time
import warnings
import logging

warnings.filterwarnings("ignore")
logging.disable(logging.WARNING)
sys.path.insert(0, os.path.dirname(os.path.abspath(__file__)))
import vlib  # noqa: E402
import graphlib as gl  # noqa: E402
from props import c06, c07, c09  # noqa: E402

MUTATIONS = {
    # the reverts of the two defects this family found and /repo repaired (407f135, 9333c86)
    "R1-revert-407f135-shadowed-test_object": ("graph", [(
        "            for node_object in test_node.objects:\n"
        "                object_parents = self.get_nodes(\n"
        "                    \"name\",\n"
        "                    rf\"(\\.|^){node_object.component_form}(\\.|$)\",",
        "            for test_object in test_node.objects:\n"
        "                object_parents = self.get_nodes(\n"
        "                    \"name\",\n"
        "                    rf\"(\\.|^){test_object.component_form}(\\.|$)\",")]),
    "R2-revert-9333c86-first-worker-restricts-vm-objects": ("graph", [(
        "                known_ids = {o.id for o in graph.objects}\n"
        "                graph.new_objects(\n"
        "                    [s for s in stubs if s.key == \"nets\" or s.id not in known_ids]\n"
        "                )",
        "                graph.new_objects([s for s in stubs if s.key == \"nets\"])")]),
    "M1-clone-parent-swapped-comparison": ("graph", [(
        "                            parent if clone_setup == parent_source else clone_setup",
        "                            parent if clone_setup != parent_source else clone_setup")]),
    "M2-clone-threshold-off-by-one": ("graph", [(
        "                if len(more_parents) > 1:\n                    children += self.parse_cloned_branches_for_node_and_object(",
        "                if len(more_parents) > 2:\n                    children += self.parse_cloned_branches_for_node_and_object(")]),
    "M3-bridge-forgets-one-register": ("node", [(
        "            self._dropped_cleanup_nodes = test_node._dropped_cleanup_nodes\n", "")]),
    "M4-bridge-one-sided": ("node", [(
        "            test_node._bridged_nodes.append(self)\n", "")]),
    "M5-root-skips-non-object-roots": ("graph", [(
        "                    object_roots[test_node] = TestObject(\"shared\", test_node.recipe)\n",
        "                    continue\n")]),
    "M6-dependency-filter-dropped-for-images": ("graph", [(
        "            if vm_name == object_name or (\n                object_type == \"images\" and object_name.endswith(f\"_{vm_name}\")\n            ):",
        "            if vm_name == object_name:")]),
    "M7-descend-forgets-cleanup-record": ("node", [(
        "        test_node._cleanup_nodes[self] = test_node._cleanup_nodes.get(self, set()) | {\n            test_object\n        }\n",
        "")]),
    "M8-clone-source-keeps-prefix": ("node", [(
        "        self.prefix = \"0\" + self.prefix\n", "")]),
    "M9-clone-source-runnable": ("node", [(
        "        elif len(self.cloned_nodes) > 0:\n            logging.debug(f\"Should not run a cloned node {self}\")\n            return False\n",
        "")]),
    "M10-first-parent-only-when-reusing-clones": ("graph", [(
        "                return list(filtered_parents[0].cloned_nodes), []",
        "                return list(filtered_parents[0].cloned_nodes)[:1], []")]),
    "M10b-first-clone-only-when-reparsing": ("graph", [(
        "                    nodes_to_add = old_node.cloned_nodes\n",
        "                    nodes_to_add = old_node.cloned_nodes[:1]\n")]),
    "M13-reused-parent-added-twice": ("graph", [(
        "                    if node_to_add not in get_nodes:\n                        get_nodes.append(node_to_add)",
        "                    get_nodes.append(node_to_add)\n                    get_nodes.append(node_to_add)")]),
    "M11-lazy-reuses-first-child-only": ("graph", [(
        "        if unique_new_node and len(filtered_children) == 1:",
        "        if len(filtered_children) >= 1:")]),
    "M12-clone-state-not-branch-specific": ("graph", [(
        "                child.params[\"get_state\" + state_suffixes] = parent_state\n",
        "")]),
}


def run(name, seeds=(11,), n_suites=10):
    mod, reps = MUTATIONS[name]
    res = {}
    t0 = time.time()
    for prop, module in (("C06", c06), ("C07", c07), ("C09", c09)):
        ctx = vlib.Ctx(prop, "quick", seeds[0])
        cases = c06.gen_cases(ctx.rng, n_suites, 1, "small", lazy_share=0.4 if prop != "C09" else 0.0)
        try:
            with gl.patched(extra={mod: reps}):
                for case in cases:
                    if prop == "C07":
                        case.pop("order", None)
                    if prop == "C09" and len(case["nets"]) == 1:
                        case["nets"] = case["nets"] + [n for n in gl.all_net_names(case["suite"]) if n not in case["nets"]][:1]
                    try:
                        if prop == "C09":
                            gl.run_attributed(ctx, case, lambda c, k: module.run_cases(c, [k], 2))
                        else:
                            gl.run_attributed(ctx, case, lambda c, k: module.run_cases(c, [k]))
                    except Exception as e:  # noqa
                        ctx.notes.append(f"harness raised {type(e).__name__}: {e}"[:200])
                    if time.time() - t0 > 400:
                        break
        finally:
            gl.cleanup()
        keys = {}
        for v in ctx.violations:
            if v["key"] not in gl.KNOWN_KEYS:
                keys[v["key"]] = keys.get(v["key"], 0) + 1
        res[prop] = {"violations": keys, "disagreements": len(ctx.disagreements), "cases": ctx.evaluations,
                     "notes": ctx.notes[:2]}
    return res


if __name__ == "__main__":
    names = [a for a in sys.argv[1:] if not a.startswith("-n")] or ["baseline"] + list(MUTATIONS)
    n_suites = next((int(a[2:]) for a in sys.argv[1:] if a.startswith("-n")), 10)
    for n in names:
        if n == "baseline":
            MUTATIONS["baseline"] = ("graph", [])
        r = run(n, n_suites=n_suites)
        caught = [p for p, v in r.items() if v["violations"] or v["disagreements"]]
        print(f"{n}: {'CAUGHT by ' + ','.join(caught) if caught else 'MISSED'}")
        for p, v in r.items():
            print(f"    {p}: {v}")
        sys.stdout.flush()
