"""Self test of the `effect_loops` shapes of harness/pygen.py (added for harness/pygen_pxupdate.py / pygen_pxcmd.py):

    /venv/bin/python harness/pygen_selftest_pxupdate.py

(1) without the opt-in flag the new shapes are refused as before; (2) with it, what must still be refused is refused
(`break` / `return` / `else` in a loop with effects, a search loop whose `else` jumps); (3) one function that uses the
search loop with `else`, a loop with effects (`continue`, `raise Cls` without message, a pinned action) translates, the
generated Lean compiles and computes what Python computes on sampled inputs.
"""
import ast
import os
import subprocess
import sys
import tempfile

sys.path.insert(0, os.path.dirname(os.path.abspath(__file__)))
import pygen  # noqa: E402
import vlib  # noqa: E402

SRC = '''
def f(xs, ys, k):
    pick = "none"
    for x in xs:
        if x == k:
            pick = x
            break
    else:
        pick = "all.." + pick
    for y in ys:
        if y == "skip":
            continue
        if y == "bad":
            raise ValueError
        log.append(y)
    return pick
'''


def spec(flag=True):
    return pygen.Spec("f", [("xs", "List String"), ("ys", "List String"), ("k", "String")],
                      {"xs": ("xs", "slist"), "ys": ("ys", "slist"), "k": ("k", "str")}, ret="str",
                      monad="StateT (List String) (Except String)", effect_loops=flag,
                      stmts={"log.append(y)": "modify (fun l => l ++ [y])"}, raises=[("ValueError", "", '"ValueError"')])


REFUSED = {
    "break in a loop with effects": SRC.replace("            continue\n", "            break\n"),
    "return in a loop with effects": SRC.replace("            continue\n", "            return pick\n"),
    "else of a loop with effects": SRC.replace("        log.append(y)\n", "        log.append(y)\n    else:\n        log.append(k)\n"),
    "continue in the else of a search loop": "def f(xs, ys, k):\n    for y in ys:\n        for x in xs:\n            if x == k:\n                break\n"
                                             "        else:\n            continue\n        log.append(y)\n    return k\n",
}


def py_run(xs, ys, k):
    env = {"log": []}
    exec(SRC, env)
    try:
        return ("ok", env["f"](xs, ys, k), env["log"])
    except ValueError:
        return ("error", "ValueError")


def lean_list(l):
    return "[" + ", ".join(pygen.lean_str(x) for x in l) + "]"


def main():
    fails = []
    fn = lambda src: ast.parse(src).body[0]                          # noqa: E731
    try:
        pygen.translate(fn(SRC), spec(False))
        fails.append("accepted without the effect_loops flag")
    except pygen.Unsupported:
        pass
    for what, src in REFUSED.items():
        try:
            pygen.translate(fn(src), spec())
            fails.append(f"not refused: {what}")
        except pygen.Unsupported:
            pass
    lines = pygen.translate(fn(SRC), spec())
    text = "\n".join(lines)
    for needle in ("match (xs.find? (fun x => (x == k))) with", "| none =>", "ys.forM fun y => do", "return ()",
                   'throw "ValueError"', "modify (fun l => l ++ [y])"):
        if needle not in text:
            fails.append(f"generated text lacks `{needle}`")
    cases = [(["a", "b"], ["p", "skip", "q"], "b"), (["a"], ["p", "bad", "q"], "z"), ([], [], "k"), (["k", "k"], ["skip"], "k")]
    checks = []
    for xs, ys, k in cases:
        r = py_run(xs, ys, k)
        want = (f'some ({pygen.lean_str(r[1])}, {lean_list(r[2])})' if r[0] == "ok" else 'none')
        checks.append(f"example : ((f {lean_list(xs)} {lean_list(ys)} {pygen.lean_str(k)}).run []).toOption = {want} := by decide")
    tmp = tempfile.mkdtemp(prefix="i2n-verif-pxsel-")
    path = os.path.join(tmp, "Sel.lean")
    open(path, "w").write(text + "\n" + "\n".join(checks) + "\n")
    p = subprocess.run(["lake", "env", "lean", path], cwd=vlib.LEAN, stdout=subprocess.PIPE, stderr=subprocess.STDOUT, text=True)
    if p.returncode != 0 or "error" in p.stdout:
        fails.append("the generated Lean does not compile / disagrees with Python:\n" + p.stdout[:1500])
    import shutil
    shutil.rmtree(tmp, ignore_errors=True)
    print("pygen effect_loops selftest:", "OK" if not fails else "FAILED")
    for f in fails:
        print("  -", f)
    return 1 if fails else 0


if __name__ == "__main__":
    sys.exit(main())
