"""pygen_pxloc — translator tie (see harness/pygen.py, harness/pygen_pxready.py) for further per-node functions of
avocado_i2n/cartgraph/node.py:

    TestNode.is_unrolled / should_parse                  -> genIsUnrolled / genShouldParse          (GenLazy.lean, C02)
    TestNode.is_flat / is_shared_root / is_object_root   -> genIsFlat / genIsSharedRoot / genIsObjectRoot   (GenLazy.lean)
    TestNode.get_stateful_objects                        -> genGetStatefulObjects                   (GenLazy.lean)
    TestNode.shared_involved_workers                     -> genSharedInvolvedWorkers                (GenInvolved.lean, C05)
    TestNode.shared_started_workers / shared_finished_workers / shared_results
                                                         -> genSharedStartedWorkers / …             (GenInvolved.lean)
    TestNode.pull_locations                              -> genPullLocations                        (GenPull.lean, C08)

`extract_lazy(ctx)` / `extract_involved(ctx)` / `extract_pull(ctx)` regenerate the files from /repo's CURRENT source (the
environment variable PYGEN_NODE_SRC names another file for mutation sanity runs); they are called by `extract(ctx)` of
harness/props/c02.py / c05.py / c08.py.  The equality theorems `…_matches_source` are in lean/I2N/Props/C02.lean,
C05.lean, C08.lean.

Atom tables (trusted, see the docstring of pygen.py).  A node is a `Nat` (its index in the graph), a worker likewise, and
a worker's id stands for the worker (register keys are worker indices in the model):
  self.is_shared_root() / self.is_flat()     `(gv.node f).sharedRoot` / `.flat` (tied one level down: genIsSharedRoot, genIsFlat)
  worker / worker is None                    `worker : Option Nat` is given / is not
  worker.net.long_suffix in self.incompatible_workers
                                             `(f, w)` is in `State.incompatible`: `incompat` = the workers recorded for `f`
  self.cleanup_nodes                         the keys of the dictionary in insertion order = `(gv.node f).cleanup.map (·.1)`
  self.setless_form / node.id / worker.id    `(gv.node f).setless` / `gv.nodeId c` / `(gv.worker w).id`; the substring tests
                                             between them are TRANSLATED (`strIn`)
  self.shared_involved_workers               `involved gv s f` as a list (Python iterates over a set: the loop is an
                                             existence test, its result does not depend on the order)
  self.is_unrolled(v) / self.is_cleanup_ready(v)   the model functions (tied by genIsUnrolled / genIsCleanupReady)
  picked_worker.restrs                       a list that is empty iff the worker is not `restricted`
  <register>.get_workers()                   `regWorkers <register> none`
  TestSwarm.run_swarms / TestSwarm.run_swarms[s].workers
                                             the swarms in dictionary order, each standing for the list of its workers
"""
import os
import sys

sys.path.insert(0, os.path.dirname(os.path.abspath(__file__)))
import pygen  # noqa: E402
from pygen import Spec  # noqa: E402

NODE = "avocado_i2n/cartgraph/node.py"

NODES = ("list", "Nat")
NATSET = ("set", "Nat")

UNROLLED_SPEC = Spec(
    "genIsUnrolled",
    binders=[("sharedRoot", "Bool"), ("flat", "Bool"), ("worker", "Option Nat"), ("incompat", "List Nat"),
             ("cleanup", "List Nat"), ("setless", "String"), ("nodeId", "Nat → String"), ("workerId", "Nat → String")],
    params={"worker": None}, ret="bool", monad="Except String",
    atoms={"self.is_shared_root()": ("sharedRoot", "bool"),
           "self.is_flat()": ("flat", "bool"),
           "worker": ("worker.isSome", "bool"),
           "worker is None": ("worker.isNone", "bool"),
           "worker.net.long_suffix": ("(worker.getD 0)", "Nat"),
           "self.incompatible_workers": ("incompat", NATSET),
           "self.cleanup_nodes": ("cleanup", NODES),
           "self.setless_form": ("setless", "str"),
           "node.id": ("(nodeId node)", "str"),
           "worker.id": ("(workerId (worker.getD 0))", "str")},
    raises=[("RuntimeError", "Only flat nodes can be unrolled", '"RuntimeError"')],
    type_defaults={"Nat": "0"}, prims={"substr": "strIn"},
    doc="`TestNode.is_unrolled` of avocado_i2n/cartgraph/node.py.  `sharedRoot` = `self.is_shared_root()`, `flat` = "
        "`self.is_flat()`, `worker` = the worker (none: for any worker), `incompat` = `self.incompatible_workers` (the "
        "workers whose net is recorded), `cleanup` = `self.cleanup_nodes` (dictionary order), `setless` = "
        "`self.setless_form`, `nodeId c` = `c.id`, `workerId w` = `w.id`")

SHOULD_PARSE_SPEC = Spec(
    "genShouldParse",
    binders=[("involved", "List Nat"), ("unrolled", "Nat → Bool"), ("cleanupReady", "Nat → Bool"),
             ("restrs", "Nat → List String")],
    params={"worker": None}, ret="bool", monad="pure",
    atoms={"self.shared_involved_workers": ("involved", NODES),
           "picked_worker.restrs": ("(restrs picked_worker)", "slist")},
    calls={"self.is_unrolled(_1)": ("(unrolled {1})", "bool", "pure", ["Nat"]),
           "self.is_cleanup_ready(_1)": ("(cleanupReady {1})", "bool", "pure", ["Nat"])},
    ignored_calls=("logging.debug",),
    doc="`TestNode.should_parse` of avocado_i2n/cartgraph/node.py.  `involved` = `self.shared_involved_workers` (a set; "
        "the loop is an existence test), `unrolled v` = `self.is_unrolled(v)`, `cleanupReady v` = "
        "`self.is_cleanup_ready(v)`, `restrs v` = `v.restrs`")

IS_FLAT_SPEC = Spec(
    "genIsFlat", binders=[("objects", "List String")], params={}, ret="bool", monad="pure",
    atoms={"self.objects": ("objects", "slist")},
    doc="`TestNode.is_flat` of avocado_i2n/cartgraph/node.py.  `objects` = `self.objects` (any representation of the "
        "test objects; only their number is read)")

IS_SHARED_ROOT_SPEC = Spec(
    "genIsSharedRoot", binders=[("getBoolean", "String → Bool → Bool")], params={}, ret="bool", monad="pure",
    calls={"self.params.get_boolean('shared_root', _1)": ('(getBoolean "shared_root" {1})', "bool", "pure", ["bool"])},
    doc="`TestNode.is_shared_root` of avocado_i2n/cartgraph/node.py.  `getBoolean k d` = `self.params.get_boolean(k, d)`")

IS_OBJECT_ROOT_SPEC = Spec(
    "genIsObjectRoot", binders=[("paramKeys", "List String")], params={}, ret="bool", monad="pure",
    atoms={"self.params": ("paramKeys", "slist")},
    doc="`TestNode.is_object_root` of avocado_i2n/cartgraph/node.py.  `paramKeys` = the keys of `self.params` (membership "
        "in a dictionary is membership among its keys)")

STATEFUL_SPEC = Spec(
    "genGetStatefulObjects",
    binders=[("do", "String"), ("objects", "List Nat"), ("hasState", "String → Nat → Bool")],
    params={"do": ("«do»", "str")}, ret=NODES, monad="pure",
    atoms={"self.objects": ("objects", NODES),
           "test_object.object_typed_params(self.params).get(f'{do}_state')": ("(hasState «do» test_object)", "bool")},
    local_types={"setup_objects": NODES},
    doc="`TestNode.get_stateful_objects` of avocado_i2n/cartgraph/node.py.  `objects` = `self.objects` (a test object is "
        "its position), `hasState do o` = the truthiness of `o.object_typed_params(self.params).get(f\"{do}_state\")`")


def check_defaults(path, qualname, want):
    """the translator does not look at parameter defaults; the callers of these functions rely on them (`is_unrolled()`
    = for any worker, `get_stateful_objects()` = the SET states), so a changed default is refused here"""
    import ast
    fn = pygen.find_function(ast.parse(open(path).read(), filename=path), qualname)
    a = fn.args
    names = [x.arg for x in a.posonlyargs + a.args]
    got = {n: ast.unparse(d) for n, d in zip(names[len(names) - len(a.defaults):], a.defaults)}
    if got != want or a.vararg or a.kwarg or a.kwonlyargs:
        raise pygen.Unsupported(f"{qualname}: parameter defaults {got}, the tie was made for {want}")


def lazy_source(path=None):
    path = path or pygen._src("PYGEN_NODE_SRC", NODE)
    check_defaults(path, "TestNode.is_unrolled", {"worker": "None"})
    check_defaults(path, "TestNode.should_parse", {"worker": "None"})
    check_defaults(path, "TestNode.get_stateful_objects", {"do": "'set'"})
    defs = [pygen.generate(path, "TestNode.is_flat", IS_FLAT_SPEC),
            pygen.generate(path, "TestNode.is_shared_root", IS_SHARED_ROOT_SPEC),
            pygen.generate(path, "TestNode.is_object_root", IS_OBJECT_ROOT_SPEC),
            pygen.generate(path, "TestNode.get_stateful_objects", STATEFUL_SPEC),
            pygen.generate(path, "TestNode.is_unrolled", UNROLLED_SPEC),
            pygen.generate(path, "TestNode.should_parse", SHOULD_PARSE_SPEC)]
    return pygen.render_file("harness/pygen_pxloc.py:extract_lazy (called by harness/props/c02.py:extract) from "
                             "avocado_i2n/cartgraph/node.py", ["I2N.Model.Trav"], "I2N.Extracted.GenLazy", ["I2N.Trav"],
                             defs)


def extract_lazy(ctx=None):
    return pygen.write_if_changed(pygen._lean_path("GenLazy.lean"), lazy_source())


INVOLVED_SPEC = Spec(
    "genSharedInvolvedWorkers",
    binders=[("bySetup", "List Nat"), ("byCleanup", "List Nat"), ("swarms", "List (List Nat)")],
    params={}, ret=NATSET, monad="pure",
    atoms={"self._picked_by_setup_nodes.get_workers()": ("bySetup", NATSET),
           "self._picked_by_cleanup_nodes.get_workers()": ("byCleanup", NATSET),
           "TestSwarm.run_swarms": ("swarms", ("list", NODES)),
           "TestSwarm.run_swarms[s].workers": ("s", NODES)},
    fields={("Nat", ".id"): ("{0}", "Nat")},
    type_defaults={"Nat": "0"},
    doc="`TestNode.shared_involved_workers` of avocado_i2n/cartgraph/node.py.  `bySetup` / `byCleanup` = "
        "`self._picked_by_setup_nodes.get_workers()` / `…cleanup…` (worker ids; a worker's id stands for the worker), "
        "`swarms` = `TestSwarm.run_swarms` in dictionary order, a swarm standing for the list of its workers; the result "
        "is a SET: the list stands for its elements")


SHARED_RESULTS_SPEC = Spec(
    "genSharedResults",
    binders=[("own", "List Result"), ("bridged", "List Nat"), ("resultsOf", "Nat → List Result")],
    params={}, ret=("list", "Result"), monad="pure",
    atoms={"self.results": ("own", ("list", "Result")),
           "self.bridged_nodes": ("bridged", NODES)},
    fields={("Nat", ".results"): ("(resultsOf {0})", ("list", "Result"))},
    doc="`TestNode.shared_results` of avocado_i2n/cartgraph/node.py.  `own` = `self.results`, `bridged` = "
        "`self.bridged_nodes` (in tuple order), `resultsOf m` = `m.results`")


def involved_source(path=None):
    path = path or pygen._src("PYGEN_NODE_SRC", NODE)
    defs = [pygen.generate(path, "TestNode.shared_involved_workers", INVOLVED_SPEC),
            pygen.generate(path, "TestNode.shared_results", SHARED_RESULTS_SPEC)]
    return pygen.render_file("harness/pygen_pxloc.py:extract_involved (called by harness/props/c05.py:extract) from "
                             "avocado_i2n/cartgraph/node.py", ["I2N.Model.Trav"], "I2N.Extracted.GenInvolved",
                             ["I2N.Trav"], defs)


def extract_involved(ctx=None):
    return pygen.write_if_changed(pygen._lean_path("GenInvolved.lean"), involved_source())


SOURCES = {"lazy": lazy_source, "involved": involved_source}

if __name__ == "__main__":
    for name in sys.argv[1:] or list(SOURCES):
        print(SOURCES[name]())
