#!/bin/sh
# tools/regress_seeded.sh <seeded ids...>: every seeded change again against the CURRENT machinery (no demo runs): the patch
# is applied in a scratch worktree of /repo, the property's quick check runs from a scratch worktree of /verif HEAD.
# Prints one line per id: <id> <property> exit=<rc> <first VIOLATION/OK line>
root="$(cd "$(dirname "$0")/.." && pwd)"
wtv=$(mktemp -d /tmp/i2n-regv-XXXXXX); rmdir "$wtv"
git -C "$root" worktree add -q --detach "$wtv" HEAD
cp -r "$root/lean/.lake" "$wtv/lean/.lake"
for id in "$@"; do
  p=$(echo "$id" | cut -c1-3)
  wtr=$(mktemp -d /tmp/i2n-regr-XXXXXX); rmdir "$wtr"
  git -C /repo worktree add -q --detach "$wtr" HEAD
  if git -C "$wtr" apply "$root/seeded/$id/patch.diff" 2>/dev/null; then
    out=$(cd "$wtv" && I2N_REPO="$wtr" PYTHONPATH="$wtr" VERIF_SEED=${VERIF_SEED:-1} nice -n 5 ./check "$p" 2>&1); rc=$?
    echo "$id $p exit=$rc $(echo "$out" | grep -E '^(VIOLATION|OK|HARNESS|TIMEOUT)' | head -1 | cut -c1-160)"
  else
    echo "$id $p patch-does-not-apply"
  fi
  git -C /repo worktree remove --force "$wtr"
  (cd "$wtv" && git checkout -q -- . 2>/dev/null)
done
git -C "$root" worktree remove --force "$wtv"
