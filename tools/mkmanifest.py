#!/usr/bin/env python3
"""Assemble MANIFEST.json from manifest.d/Cxx.json fragments (one per claimed property)."""
import json, os, sys
here = os.path.dirname(os.path.dirname(os.path.abspath(__file__)))
props = [json.loads(l)["id"] for l in open(os.path.join(here, "properties.jsonl"))]
checks, na = [], []
pending = json.load(open(os.path.join(here, "manifest.d", "_not_claimed.json"))) if os.path.exists(os.path.join(here, "manifest.d", "_not_claimed.json")) else {}
hold = json.load(open(os.path.join(here, "manifest.d", "_hold.json"))) if os.path.exists(os.path.join(here, "manifest.d", "_hold.json")) else {}
for p in props:
    f = os.path.join(here, "manifest.d", p + ".json")
    if p in hold:
        na.append({"property_id": p, "reason": hold[p]})
    elif os.path.exists(f):
        c = json.load(open(f))
        c.setdefault("property_id", p)
        c.setdefault("quick_cmd", f"./check {p} --tier quick")
        c.setdefault("thorough_cmd", f"./check {p} --tier thorough")
        c.setdefault("evidence_file", f"/verif/evidence/{p}.json")
        c.setdefault("replay_cmd_template", f"./check {p} --replay {{path}}")
        checks.append(c)
    else:
        na.append({"property_id": p, "reason": pending.get(p, "no check registered yet: the model and correspondence for this property are still being built (see DESIGN.md §6); nothing is claimed")})
engines = json.load(open(os.path.join(here, "manifest.d", "_engines.json")))
m = {
    "version": 1,
    "setup_cmd": "./setup.sh",
    "hooks": {
        "guard": "AVOCADO_I2N_VERIF",
        "enable": "no source hook exists: every seam used is a module/class attribute replaced in-process by the harness (as the selftests do)",
        "baseline_off_cmd": "cd /repo && /venv/bin/python -m pytest -ra -q -p no:cacheprovider --timeout=900 --continue-on-collection-errors",
        "source_commits": [],
        "add_only": True,
    },
    "engines": engines,
    "checks": checks,
    "not_applicable": na,
    "notes": "Technique family: machine-checked proof in Lean 4 (models + theorems under lean/I2N) tied to /repo by per-run correspondence checks (harness/). See DESIGN.md. fix: commits in /repo are recorded in known_findings.json.",
}
json.dump(m, open(os.path.join(here, "MANIFEST.json"), "w"), indent=1)
print(f"{len(checks)} checks, {len(na)} not claimed")
