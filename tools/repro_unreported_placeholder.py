"""Reproduction on the REAL code of /repo (nothing of /repo is edited): when the report of a test never reaches
`job.result.tests` within the 10 polls of `TestRunner.run_test_node`, the UNKNOWN placeholder stays in `node.results`
for ever — the removal sits only in the branch that found the report.

    /venv/bin/python tools/repro_unreported_placeholder.py

Seams (the ones harness/props/c10.py uses): `TestRunner.run_test_task` is replaced by a coroutine that reports nothing,
`asyncio.sleep` by a counter.  Everything else is the code of /repo.
"""
import asyncio
import os
import sys
import tempfile
import types
from unittest import mock

HERE = os.path.dirname(os.path.abspath(__file__))
sys.path.insert(0, os.path.join(os.path.dirname(HERE), "harness"))
sys.path.insert(0, os.path.join(os.path.dirname(HERE), "harness", "props"))


def main():
    scratch = tempfile.mkdtemp(prefix="i2n-verif-repro-")
    os.chdir(scratch)
    import c10
    I = c10.impl()
    name = c10.node_name("tutorial1", "cluster1", "net1")
    node = c10.mk_node(I, "1", name, "cluster1", "net1", {}, stateful=False)
    runner = I.TestRunner()
    runner.job = types.SimpleNamespace(result=types.SimpleNamespace(tests=[]))
    sleeps = []

    async def silent_task(self, n):            # the test "runs" but its result never reaches job.result.tests
        return None

    async def counted_sleep(seconds):
        sleeps.append(seconds)

    out = {}
    with mock.patch.object(I.TestRunner, "run_test_task", silent_task), mock.patch.object(asyncio, "sleep", counted_sleep):
        loop = asyncio.new_event_loop()
        try:
            out["first"] = loop.run_until_complete(runner.run_test_node(node))
            after_first = [dict(r) for r in node.results]
            # what the traversal sees next: the retry counter and a second attempt
            out["second"] = loop.run_until_complete(runner.run_test_node(node))
        finally:
            loop.close()
    print("input    : one stateless node, run_test_task reports nothing; run_test_node called twice")
    print("observed : first call returned", out["first"], "after", len(sleeps) // 2, "sleeps of", set(sleeps), "s each")
    print("           node.results after the first call :", after_first)
    print("           node.results after the second call:", [dict(r) for r in node.results])
    print("           job.result.tests                   :", runner.job.result.tests)
    print("           all_results_ok()                   :", runner.all_results_ok())
    print("expected : the placeholder replaced by a definite result (the log line says 'defaulting to ERROR'), e.g.")
    print("           node.results == [{'name': ..., 'status': 'ERROR', ...}] per attempt and a failing verdict")
    stale = [r for r in node.results if r["status"] == "UNKNOWN"]
    ok = (out["first"] is False and after_first == [{"name": name, "status": "UNKNOWN"}] and len(stale) == 2)
    print("REPRODUCED" if ok else "NOT REPRODUCED")
    c10.cleanup_impl()
    return 0 if ok else 1


if __name__ == "__main__":
    sys.exit(main())
