#!/bin/sh
# tools/confirm_seed.sh <dir under seeded/>: the existing test-suite of /repo still passes with the seeded patch applied
# (scratch worktree of /repo HEAD, one pytest process per test file; the worktree is removed afterwards)
root="$(cd "$(dirname "$0")/.." && pwd)"
d="$root/seeded/$1"
wt=$(mktemp -d /tmp/i2n-confirm-XXXXXX); rmdir "$wt"
git -C /repo worktree add -q --detach "$wt" HEAD
git -C "$wt" apply "$d/patch.diff" || { echo "patch does not apply"; git -C /repo worktree remove --force "$wt"; exit 2; }
cd "$wt"
for f in selftests/isolation/test_*.py; do
  ( PYTHONPATH="$wt" timeout 3000 /venv/bin/python -m pytest -q -p no:cacheprovider --timeout=900 --continue-on-collection-errors "$f" > "$wt/.$(basename $f).log" 2>&1 ) &
done
wait
for f in selftests/isolation/test_*.py; do echo "$(basename $f): $(grep -E '[0-9]+ (passed|failed|error)' "$wt/.$(basename $f).log" | tail -1)"; done
cd /; git -C /repo worktree remove --force "$wt"
