#!/usr/bin/env python3
"""Regenerate model_anchors.json (reference AST fingerprints of every modelled function) from the CURRENT /repo.
Run by hand after the models were brought in line with /repo; never at check time."""
import importlib, json, os, sys
if sys.version_info[:2] != (3, 12) and os.path.exists("/venv/bin/python"):
    # the fingerprints are `ast.dump`s: they must be made by the interpreter the checks run under (/venv/bin/python)
    os.execv("/venv/bin/python", ["/venv/bin/python"] + sys.argv)
here = os.path.dirname(os.path.dirname(os.path.abspath(__file__)))
sys.path.insert(0, os.path.join(here, "harness"))
import vlib
out = {}
for f in sorted(os.listdir(os.path.join(here, "harness", "props"))):
    if f.startswith("c") and f[1:3].isdigit() and f.endswith(".py") and len(f) == 6:
        m = importlib.import_module("props." + f[:-3])
        for path, names in getattr(m, "ANCHORS", {}).items():
            out.update(vlib.ast_fingerprint(path, names))
missing = [k for k, v in out.items() if v is None]
json.dump(out, open(os.path.join(here, "model_anchors.json"), "w"), indent=1, sort_keys=True)
print(len(out), "anchors;", "missing:", missing)
