#!/bin/sh
# tools/try_seeded_isolated.sh <dir under seeded/> <Cxx> [more ...]
# Like try_seeded.sh but touches neither /repo nor /verif: the patch is applied in a scratch worktree of /repo and the
# checks run from a scratch worktree of /verif (used while long runs are in flight in /verif; the authoritative trial is
# try_seeded.sh, which patches /repo itself).
root="$(cd "$(dirname "$0")/.." && pwd)"
d="$root/seeded/$1"; shift
[ -f "$d/patch.diff" ] || { echo "no $d/patch.diff"; exit 2; }
demo=$(ls "$d"/demo.py "$d"/test_demo.py 2>/dev/null | head -1)
wtr=$(mktemp -d /tmp/i2n-seedrepo-XXXXXX); rmdir "$wtr"
wtv=$(mktemp -d /tmp/i2n-seedverif-XXXXXX); rmdir "$wtv"
git -C /repo worktree add -q --detach "$wtr" HEAD
( cd "$wtr" && PYTHONPATH="$wtr" timeout 1200 /venv/bin/python "$demo" >"$wtr/.before.log" 2>&1; echo "demo before: rc=$?"; tail -1 "$wtr/.before.log" | cut -c1-160 )
git -C "$wtr" apply "$d/patch.diff" || echo "patch does not apply"
( cd "$wtr" && PYTHONPATH="$wtr" timeout 1200 /venv/bin/python "$demo" >"$wtr/.after.log" 2>&1; echo "demo after:  rc=$?"; tail -1 "$wtr/.after.log" | cut -c1-160 )
if [ $# -gt 0 ]; then
  git -C "$root" worktree add -q --detach "$wtv" HEAD
  cp -r "$root/lean/.lake" "$wtv/lean/.lake"
  for p in "$@"; do
    out=$(cd "$wtv" && I2N_REPO="$wtr" PYTHONPATH="$wtr" VERIF_SEED=${VERIF_SEED:-1} ./check "$p" 2>&1); rc=$?
    echo "== check $p with patch (isolated): exit $rc"; echo "$out" | grep -E "VIOLATION|^OK|HARNESS|TIMEOUT" | cut -c1-220 | head -5
  done
  git -C "$root" worktree remove --force "$wtv"
fi
git -C /repo worktree remove --force "$wtr"
