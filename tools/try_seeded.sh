#!/bin/sh
# tools/try_seeded.sh <dir under seeded/> <Cxx> [more Cyy ...]
# 1. confirm the demonstration in a scratch worktree of /repo (passes without the patch, fails with it);
# 2. run the named checks with the patch applied to /repo itself; /repo is always restored.
root="$(cd "$(dirname "$0")/.." && pwd)"
d="$root/seeded/$1"; shift
[ -f "$d/patch.diff" ] || { echo "no $d/patch.diff"; exit 2; }
git -C /repo diff --quiet || { echo "/repo is dirty"; exit 2; }
demo=$(ls "$d"/demo.py "$d"/test_demo.py 2>/dev/null | head -1)
wt=$(mktemp -d /tmp/i2n-seedwt-XXXXXX); rmdir "$wt"
git -C /repo worktree add -q --detach "$wt" HEAD
( cd "$wt" && PYTHONPATH="$wt" timeout 1200 /venv/bin/python "$demo" >"$wt/.before.log" 2>&1; echo "demo before: rc=$?"; tail -1 "$wt/.before.log" | cut -c1-160 )
git -C "$wt" apply "$d/patch.diff" || echo "patch does not apply to the worktree"
( cd "$wt" && PYTHONPATH="$wt" timeout 1200 /venv/bin/python "$demo" >"$wt/.after.log" 2>&1; echo "demo after:  rc=$?"; tail -1 "$wt/.after.log" | cut -c1-160 )
git -C /repo worktree remove --force "$wt"
if [ $# -gt 0 ]; then
  git -C /repo apply "$d/patch.diff" || { echo "patch does not apply"; exit 2; }
  for p in "$@"; do
    out=$(cd "$root" && VERIF_SEED=${VERIF_SEED:-1} ./check "$p" 2>&1); rc=$?
    echo "== check $p with patch: exit $rc"; echo "$out" | grep -E "VIOLATION|^OK|HARNESS|TIMEOUT" | cut -c1-220 | head -5
  done
  git -C /repo checkout -- .
  # generated files that were rewritten against the patched tree
  git -C "$root" checkout -- lean/I2N/Extracted evidence 2>/dev/null
fi
git -C /repo diff --quiet && echo "/repo restored"
