#!/usr/bin/env python3
"""tools/mkconsts.py - write harness/consts/<prop>.json: reference values of the constants the checks read from /repo's
source, used ONLY as a fallback for the failing-input search when the extraction itself fails on a changed tree (the
failed extraction is reported as a broken proof obligation in any case).  Run by hand on the unchanged tree."""
import json, os, sys
if sys.version_info[:2] != (3, 12) and os.path.exists("/venv/bin/python"):
    os.execv("/venv/bin/python", ["/venv/bin/python"] + sys.argv)
here = os.path.dirname(os.path.dirname(os.path.abspath(__file__)))
sys.path.insert(0, os.path.join(here, "harness"))
os.makedirs(os.path.join(here, "harness", "consts"), exist_ok=True)
import props.c12 as c12
json.dump(c12._consts(), open(os.path.join(here, "harness", "consts", "C12.json"), "w"), indent=1, sort_keys=True)
print("C12 constants written")
