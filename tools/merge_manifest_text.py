#!/usr/bin/env python3
"""tools/merge_manifest_text.py <file>: resolve a merge conflict in a manifest.d/*.json fragment (or any JSON file whose
conflicting values are long one-line strings) by a three-way merge word by word (git merge-file on one word per line).
Reads the three stages from the index; writes the merged file; exits 1 if a word-level conflict remains."""
import json, subprocess, sys, tempfile, os

def stage(n, path):
    return json.loads(subprocess.check_output(["git", "show", f":{n}:{path}"], text=True))

def merge_str(b, o, t):
    if o == t or t == b: return o
    if o == b: return t
    fs = []
    for x in (o, b, t):
        f = tempfile.NamedTemporaryFile("w", delete=False, suffix=".txt"); f.write("\n".join(x.split(" ")) + "\n"); f.close(); fs.append(f.name)
    r = subprocess.run(["git", "merge-file", "-p", "--union", fs[0], fs[1], fs[2]], capture_output=True, text=True)
    for f in fs: os.unlink(f)
    return " ".join(r.stdout.rstrip("\n").split("\n"))

def merge(b, o, t):
    if isinstance(o, dict) and isinstance(t, dict):
        out = {}
        for k in list(o) + [k for k in t if k not in o]:
            if k in o and k in t: out[k] = merge((b or {}).get(k) if isinstance(b, dict) else None, o[k], t[k])
            else: out[k] = o.get(k, t.get(k))
        return out
    if isinstance(o, str) and isinstance(t, str): return merge_str(b if isinstance(b, str) else "", o, t)
    if isinstance(o, list) and isinstance(t, list) and o != t:
        return o + [x for x in t if x not in o]
    return o

path = sys.argv[1]
m = merge(stage(1, path), stage(2, path), stage(3, path))
json.dump(m, open(path, "w"), indent=1, ensure_ascii=True); open(path, "a").write("\n")
print("merged", path)
