#!/usr/bin/env python3
"""tools/validate.py — validate MANIFEST.json and every evidence/*.json against the schemas in /root/.vp (run with
python3-vt, which has jsonschema).  Exit 1 on the first invalid file."""
import glob
import json
import os
import sys

import jsonschema

root = os.path.dirname(os.path.dirname(os.path.abspath(__file__)))
bad = 0
jsonschema.validate(json.load(open(os.path.join(root, "MANIFEST.json"))), json.load(open("/root/.vp/MANIFEST.schema.json")))
ev = json.load(open("/root/.vp/EVIDENCE.schema.json"))
for f in sorted(glob.glob(os.path.join(root, "evidence", "C*.json"))):
    try:
        jsonschema.validate(json.load(open(f)), ev)
    except jsonschema.ValidationError as e:
        bad += 1
        print("INVALID", f, str(e).splitlines()[0])
print("manifest valid;", "all evidence valid" if not bad else f"{bad} evidence files invalid")
sys.exit(1 if bad else 0)
