#!/bin/sh
# Build the Lean library (all models, lemmas, property theorems) and every compiled driver. Offline.
set -e
cd "$(dirname "$0")/lean"
exes=""
for f in Driver/*.lean; do
  exe="drv_$(basename "$f" .lean | tr 'A-Z' 'a-z')"
  # a driver without a lean_exe entry in lakefile.toml is run as a script (lake env lean --run Driver/X.lean)
  if grep -q "name = \"$exe\"" lakefile.toml; then exes="$exes $exe"; fi
done
lake build I2N $exes
