#!/bin/sh
# Build the Lean library (all models, lemmas, property theorems) and every compiled driver. Offline.
set -e
cd "$(dirname "$0")/lean"
exes=""
for f in Driver/*.lean; do
  exes="$exes drv_$(basename "$f" .lean | tr 'A-Z' 'a-z')"
done
lake build I2N $exes
