#!/bin/sh
# Build the Lean library (all models, lemmas, property theorems) and every compiled driver. Offline.
set -e
cd "$(dirname "$0")/lean"
exes=""
for f in Driver/*.lean; do
  e="drv_$(basename "$f" .lean | tr 'A-Z' 'a-z')"
  if grep -q "^name = \"$e\"" lakefile.toml; then exes="$exes $e"; fi
done
lake build I2N $exes
